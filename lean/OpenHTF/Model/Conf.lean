/-
C20 — model of `openhtf/util/configuration.py::_Configuration` (import-free, executable).

State: declarations, loaded values, flag values, as total functions on keys. Keys are naturals; two
key attributes are parameters of the model (the harness fixes them for its key universe):
  * `valid k`   — `_is_valid_key`: non-empty and first character lower-case;
  * `method k`  — the key's name is also an attribute of the class (`load`, `reset`, ...), so that
                  `conf.<k>` finds the method before `__getattr__` is consulted.
-/
namespace OpenHTF.Conf

abbrev Key := Nat
abbrev Val := Nat

structure KeyInfo where
  valid : Key → Bool
  method : Key → Bool

structure St where
  decl : Key → Option (Option Val) := fun _ => none   -- none = undeclared; some d = declared, default d
  loaded : Key → Option Val := fun _ => none
  flags : Key → Option Val := fun _ => none
  file : Option (List (Key × Val)) := none            -- the mapping in the file given with --config-file, if any

inductive Op where
  | declare (k : Key) (d : Option Val)
  | load (kvs : List (Key × Val)) (override allowUndeclared : Bool)   -- load / load_from_dict / load_from_file
  | flagValues (kvs : List (Key × Val))                                  -- load_flag_values(Namespace)
  | reset
  | configFile (kvs : List (Key × Val))                                   -- the process was started with --config-file
  | setattr (k : Key) (v : Val)
  | saveRestore (cfg : List (Key × Val)) (inner : List Op) (raises : Bool)

/-- result of an operation as seen by the caller -/
inductive OpRes | ok | alreadyDeclared | invalidKey | attributeError | raised
deriving DecidableEq, Repr

inductive Res | val (v : Val) | undeclared | unset | method | attributeError
deriving DecidableEq, Repr

def setK (m : Key → Option Val) (k : Key) (v : Val) : Key → Option Val :=
  fun j => if j = k then some v else m j

/-- one iteration of the loop in `load_from_dict` -/
def loadOne (s : St) (override allowUndeclared : Bool) (kv : Key × Val) : St :=
  if (s.decl kv.1).isNone && !allowUndeclared then s
  else if (s.loaded kv.1).isSome && !override then s
  else { s with loaded := setK s.loaded kv.1 kv.2 }

def loadDict (s : St) (kvs : List (Key × Val)) (override allowUndeclared : Bool) : St :=
  kvs.foldl (fun s kv => loadOne s override allowUndeclared kv) s

/-- `self._flag_values.setdefault(k, v)` -/
def flagOne (s : St) (kv : Key × Val) : St :=
  if (s.flags kv.1).isSome then s else { s with flags := setK s.flags kv.1 kv.2 }

mutual
/-- returns the new state and the trace: one entry (caller-visible result, state) per completed
    sub-step. For `saveRestore`: an `ok` entry after the inline values were loaded, the entries of the
    inner ops, and an entry after the restore (`raised` if the wrapped function raised). -/
def step (ki : KeyInfo) (s : St) : Op → St × List (OpRes × St)
  | .declare k d =>
    if !ki.valid k then (s, [(.invalidKey, s)])
    else if (s.decl k).isSome then (s, [(.alreadyDeclared, s)])
    else
      let s' := { s with decl := fun j => if j = k then some d else s.decl j }
      (s', [(.ok, s')])
  | .load kvs o a => let s' := loadDict s kvs o a; (s', [(.ok, s')])
  | .flagValues kvs => let s' := kvs.foldl flagOne s; (s', [(.ok, s')])
  | .reset =>
    -- the loaded values are dropped, then those of --config-file (undeclared keys included) are loaded again - on
    -- every call (after the `fix:` commit the file is rewound first)
    let s0 := { s with loaded := fun _ => none }
    let s' := match s.file with | none => s0 | some kvs => loadDict s0 kvs true true
    (s', [(.ok, s')])
  | .configFile kvs => let s' := { s with file := some kvs }; (s', [(.ok, s')])
  | .setattr _ _ => (s, [(.attributeError, s)])
  | .saveRestore cfg inner raises =>
    let s1 := loadDict s cfg true false
    let r := run ki s1 inner
    let s3 := { r.1 with loaded := s.loaded }
    (s3, [(.ok, s1)] ++ r.2 ++ [(if raises then .raised else .ok, s3)])
def run (ki : KeyInfo) (s : St) : List Op → St × List (OpRes × St)
  | [] => (s, [])
  | o :: os =>
    let r := step ki s o
    let r2 := run ki r.1 os
    (r2.1, r.2 ++ r2.2)
end

/-- `__getitem__` -/
def getitem (s : St) (k : Key) : Res :=
  match s.decl k with
  | none => .undeclared
  | some d =>
    match s.flags k with
    | some v => .val v
    | none => match s.loaded k with
      | some v => .val v
      | none => match d with | some v => .val v | none => .unset

/-- `__contains__` -/
def contains (s : St) (k : Key) : Bool :=
  match s.decl k with
  | none => false
  | some d => d.isSome || (s.loaded k).isSome || (s.flags k).isSome

/-- attribute access `conf.<k>` -/
def getattr (ki : KeyInfo) (s : St) (k : Key) : Res :=
  if ki.method k then .method
  else if ki.valid k then getitem s k
  else .attributeError

/-- the value holder returned by `declare` (exists only for declared keys) -/
def holder (s : St) (k : Key) : Option Res :=
  match s.decl k with
  | none => none
  | some _ => some (getitem s k)

/-- `_asdict()` restricted to key `k` -/
def asdict (s : St) (k : Key) : Option Val :=
  let base := match s.decl k with | some (some d) => some d | _ => none
  let l := match s.loaded k with | some v => some v | none => base
  match s.flags k, s.decl k with
  | some v, some _ => some v
  | _, _ => l

/-! ### Spec: the reference dictionary ("flag, else loaded, else default, else unset") -/

/-- The documented precedence, as a first-match lookup through three layers. -/
def Spec.lookup (flag loaded default : Option Val) : Res :=
  match (flag <|> loaded) <|> default with
  | some v => .val v
  | none => .unset

end OpenHTF.Conf
