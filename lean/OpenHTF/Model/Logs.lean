/-
C19 — model of log capture (openhtf/util/logs.py): the per-run `RecordHandler` on the `openhtf` logger,
`TestUidFilter` / `RECORD_LOGGER_RE`, handler add/remove pairing, and `MacAddressLogFilter` (after the
`fix:` commit that redacts the formatted message as a whole). Import-free, executable.
-/
namespace OpenHTF.Logs

/-! ### logger names and the uid filter -/

def recordPrefix : List Char := "openhtf.test_record.".toList

/-- `RECORD_LOGGER_RE.match(name)`: `openhtf\.test_record\.(?P<test_uid>[^.]*)\.?` anchored at the start:
    the uid group is everything up to the next dot -/
def recordUid (name : List Char) : Option (List Char) :=
  if recordPrefix.isPrefixOf name then some ((name.drop recordPrefix.length).takeWhile (· != '.')) else none

/-- `TestUidFilter(uid).filter(record)`: framework logs are kept, record logs only of this run -/
def accepts (uid name : List Char) : Bool :=
  match recordUid name with
  | none => true
  | some u => u == uid

/-- the name of a logger of run `uid`: the record logger itself or a child made with getChild -/
def runLogger (uid : List Char) (suffix : List Char) : List Char :=
  recordPrefix ++ uid ++ (if suffix.isEmpty then [] else '.' :: suffix)

/-! ### handlers and records -/

structure Entry where
  name : List Char
  msg : Nat            -- message identity
deriving DecidableEq, Repr

structure S where
  handlers : List (List Char) := []                 -- uids with a RecordHandler on the `openhtf` logger, in order
  records : List (List Char × List Entry) := []     -- every run ever started: its log_records
deriving Repr

inductive Op
  | start (uid : List Char)        -- initialize_record_handler (TestState.__init__)
  | log (name : List Char) (msg : Nat)
  | finish (uid : List Char)       -- remove_record_handler (TestState.close)
deriving DecidableEq, Repr

def appendTo (records : List (List Char × List Entry)) (uid : List Char) (e : Entry) : List (List Char × List Entry) :=
  records.map (fun r => if r.1 == uid then (r.1, r.2 ++ [e]) else r)

def step (s : S) : Op → S
  | .start uid => { handlers := s.handlers ++ [uid], records := s.records ++ [(uid, [])] }
  | .log name msg =>
    -- Logger.callHandlers: every handler on the `openhtf` logger sees the record once; its filter decides
    { s with records := s.handlers.foldl (fun rs h => if accepts h name then appendTo rs h ⟨name, msg⟩ else rs) s.records }
  | .finish uid => { s with handlers := s.handlers.erase uid }

def run (s : S) (ops : List Op) : S := ops.foldl step s

/-- the log_records of the (first) run with that uid -/
def findRec : List (List Char × List Entry) → List Char → List Entry
  | [], _ => []
  | r :: rs, uid => if r.1 == uid then r.2 else findRec rs uid

def recordOf (s : S) (uid : List Char) : List Entry := findRec s.records uid

/-! ### MAC address redaction -/

def isHex (c : Char) : Bool :=
  ('0' ≤ c && c ≤ '9') || ('a' ≤ c && c ≤ 'f') || ('A' ≤ c && c ≤ 'F')

def isWord (c : Char) : Bool :=
  ('0' ≤ c && c ≤ '9') || ('a' ≤ c && c ≤ 'z') || ('A' ≤ c && c ≤ 'Z') || c == '_'

/-- `[\dA-F]{2}:` three times: returns the rest after the vendor prefix -/
def vendorPrefix : List Char → Option (List Char × List Char)
  | a :: b :: ':' :: c :: d :: ':' :: e :: f :: ':' :: rest =>
    if isHex a && isHex b && isHex c && isHex d && isHex e && isHex f then
      some ([a, b, ':', c, d, ':', e, f, ':'], rest) else none
  | _ => none

/-- one `[\dA-F]{2}(:|\b)` group that must be followed by another one: only the `:` alternative can succeed -/
def octetColon : List Char → Option (List Char)
  | a :: b :: ':' :: rest => if isHex a && isHex b then some rest else none
  | _ => none

/-- the last `[\dA-F]{2}(:|\b)` group: a colon is consumed if present, else a word boundary is required -/
def lastOctet : List Char → Option (List Char)
  | a :: b :: rest =>
    if isHex a && isHex b then
      match rest with
      | ':' :: rest' => some rest'
      | c :: _ => if isWord c then none else some rest
      | [] => some []
    else none
  | _ => none

/-- a match of MAC_REPLACE_RE at the head of the input: (vendor prefix, rest after the whole match) -/
def matchMac (l : List Char) : Option (List Char × List Char) :=
  match vendorPrefix l with
  | none => none
  | some (v, r1) =>
    match octetColon r1 with
    | none => none
    | some r2 =>
      match octetColon r2 with
      | none => none
      | some r3 =>
        match lastOctet r3 with
        | none => none
        | some r4 => some (v, r4)

def redacted : List Char := "<REDACTED>".toList

/-- `MAC_REPLACE_RE.sub(r'\1<REDACTED>', message)`: leftmost non-overlapping matches -/
def redact (fuel : Nat) (l : List Char) : List Char :=
  match fuel with
  | 0 => l
  | fuel + 1 =>
    match l with
    | [] => []
    | c :: cs =>
      match matchMac (c :: cs) with
      | some (v, rest) => v ++ redacted ++ redact fuel rest
      | none => c :: redact fuel cs

def redactMsg (l : List Char) : List Char := redact (l.length + 1) l

end OpenHTF.Logs
