/-
C17 — model of `OutputToFile.__call__` / `Atomic` (openhtf/output/callbacks/__init__.py) and
`util/atomic_write.py` as programs over a tiny file system. Import-free, executable.
The destination and the temporary file live on one file system; rename/move is atomic (assumption).
Writes go to the user-space buffer of the open handle and reach the file only on flush / close (worst case:
nothing is written back earlier); a handle stays attached to its file when the file is renamed.
-/
namespace OpenHTF.AtomicFile

abbrev Bytes := List Nat

/-- where the open handle's file currently is -/
inductive Handle | closed | onTemp | onDest
deriving DecidableEq, Repr

structure Fs where
  dest : Option Bytes          -- content of the destination path (none = does not exist)
  temp : Option Bytes := none  -- content of the temporary file
  buf : Bytes := []            -- written through the handle, not yet flushed (lost if the process dies)
  handle : Handle := .closed
deriving DecidableEq, Repr

inductive FsOp
  | createTemp
  | append (data : Bytes)
  | flush
  | close
  | closeFail                  -- close raises: the buffer is lost, the handle is gone
  | rename                     -- temp -> dest (atomic)
  | removeTemp
deriving DecidableEq, Repr

def flushBuf (fs : Fs) : Fs :=
  match fs.handle with
  | .onTemp => { fs with temp := fs.temp.map (· ++ fs.buf), buf := [] }
  | .onDest => { fs with dest := fs.dest.map (· ++ fs.buf), buf := [] }
  | .closed => fs

def apply (fs : Fs) : FsOp → Fs
  | .createTemp => { fs with temp := some [], buf := [], handle := .onTemp }
  | .append d => if fs.handle = .closed then fs else { fs with buf := fs.buf ++ d }
  | .flush => flushBuf fs
  | .close => { flushBuf fs with handle := .closed }
  | .closeFail => { fs with buf := [], handle := .closed }
  | .rename => match fs.temp with
    | some t => { fs with dest := some t, temp := none, handle := if fs.handle = .onTemp then .onDest else fs.handle }
    | none => fs
  | .removeTemp => { fs with temp := none }

def applyAll (fs : Fs) (ops : List FsOp) : Fs := ops.foldl apply fs

/-- where an injected fault strikes -/
inductive Fault
  | none
  | serializer (afterChunks : Nat)   -- the serializer raises after yielding that many chunks
  | write (k : Nat)                   -- the k-th write (0-based) raises before writing anything
  | close                             -- close/flush of the temporary file raises
deriving DecidableEq, Repr

/-- `OutputToFile.__call__` with a filename pattern (after the `fix:` commit: on an exception the
    temporary file is discarded instead of being moved over the destination) -/
def outputToFile (chunks : List Bytes) : Fault → List FsOp
  | .none => [.createTemp] ++ chunks.map .append ++ [.close] ++ [.rename]
  | .serializer k => [.createTemp] ++ (chunks.take k).map .append ++ [.close, .removeTemp]
  | .write k => [.createTemp] ++ (chunks.take k).map .append ++ [.close, .removeTemp]
  | .close => [.createTemp] ++ chunks.map .append ++ [.closeFail]   -- close raised: nothing is moved, the temporary file stays behind

/-- `atomic_write(filename, filesync)`: close, then rename, only after the body completed; the temporary file is
    removed in `finally` -/
def atomicWrite (chunks : List Bytes) (filesync : Bool) : Fault → List FsOp
  | .none => [.createTemp] ++ chunks.map .append ++ ((if filesync then [.flush] else []) ++ [.close]) ++ [.rename, .removeTemp]
  | .serializer k => [.createTemp] ++ (chunks.take k).map .append ++ [.close, .removeTemp]
  | .write k => [.createTemp] ++ (chunks.take k).map .append ++ [.close, .removeTemp]
  | .close => [.createTemp] ++ chunks.map .append ++ [.closeFail, .removeTemp]

/-- the variant that publishes before closing (`os.rename` inside the `with open(...)` block) -/
def atomicWriteRenameBeforeClose (chunks : List Bytes) : List FsOp :=
  [.createTemp] ++ chunks.map .append ++ [.rename, .close, .removeTemp]

/-- the process is killed after the first k file-system operations -/
def crashAfter (k : Nat) (ops : List FsOp) : List FsOp := ops.take k

/-- the complete serialization -/
def full (chunks : List Bytes) : Bytes := chunks.flatten

/-! ### two calls of one callback object at the same time (two records, two destinations)

Each call owns its temporary file, its handle and its destination: the state is a pair of file systems and
every operation is tagged with the call it belongs to. -/

def apply2 (s : Fs × Fs) (o : Bool × FsOp) : Fs × Fs :=
  if o.1 then (s.1, apply s.2 o.2) else (apply s.1 o.2, s.2)

def applyAll2 (s : Fs × Fs) (ops : List (Bool × FsOp)) : Fs × Fs := ops.foldl apply2 s

/-- the operations of one of the two calls, in order -/
def opsOf (b : Bool) (ops : List (Bool × FsOp)) : List FsOp := (ops.filter (·.1 == b)).map (·.2)

end OpenHTF.AtomicFile
