/-
C17 — model of `OutputToFile.__call__` / `Atomic` (openhtf/output/callbacks/__init__.py) and
`util/atomic_write.py` as programs over a tiny file system. Import-free, executable.
The destination and the temporary file live on one file system; rename/move is atomic (assumption).
-/
namespace OpenHTF.AtomicFile

abbrev Bytes := List Nat

structure Fs where
  dest : Option Bytes          -- content of the destination path (none = does not exist)
  temp : Option Bytes := none  -- content of the temporary file
deriving DecidableEq, Repr

inductive FsOp
  | createTemp
  | append (data : Bytes)
  | rename                     -- temp -> dest (atomic)
  | removeTemp
deriving DecidableEq, Repr

def apply (fs : Fs) : FsOp → Fs
  | .createTemp => { fs with temp := some [] }
  | .append d => { fs with temp := fs.temp.map (· ++ d) }
  | .rename => match fs.temp with
    | some t => { dest := some t, temp := none }
    | none => fs
  | .removeTemp => { fs with temp := none }

def applyAll (fs : Fs) (ops : List FsOp) : Fs := ops.foldl apply fs

/-- where an injected fault strikes -/
inductive Fault
  | none
  | serializer (afterChunks : Nat)   -- the serializer raises after yielding that many chunks
  | write (k : Nat)                   -- the k-th write (0-based) raises before writing anything
  | close                             -- close/flush of the temporary file raises
deriving DecidableEq, Repr

/-- `OutputToFile.__call__` with a filename pattern (after the `fix:` commit: on an exception the
    temporary file is discarded instead of being moved over the destination) -/
def outputToFile (chunks : List Bytes) : Fault → List FsOp
  | .none => [.createTemp] ++ chunks.map .append ++ [.rename]
  | .serializer k => [.createTemp] ++ (chunks.take k).map .append ++ [.removeTemp]
  | .write k => [.createTemp] ++ (chunks.take k).map .append ++ [.removeTemp]
  | .close => [.createTemp] ++ chunks.map .append     -- close raised: nothing is moved, the temporary file stays behind

/-- `atomic_write(filename)`: rename only after the body completed; the temporary file is removed in `finally` -/
def atomicWrite (chunks : List Bytes) : Fault → List FsOp
  | .none => [.createTemp] ++ chunks.map .append ++ [.rename, .removeTemp]
  | .serializer k => [.createTemp] ++ (chunks.take k).map .append ++ [.removeTemp]
  | .write k => [.createTemp] ++ (chunks.take k).map .append ++ [.removeTemp]
  | .close => [.createTemp] ++ chunks.map .append ++ [.removeTemp]

/-- the process is killed after the first k file-system operations -/
def crashAfter (k : Nat) (ops : List FsOp) : List FsOp := ops.take k

/-- the complete serialization -/
def full (chunks : List Bytes) : Bytes := chunks.flatten

end OpenHTF.AtomicFile
