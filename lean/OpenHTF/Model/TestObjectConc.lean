/-
C09 — several threads calling `execute()` on ONE Test object concurrently (import-free, executable).
The top of `Test.execute` per thread: take `Test._lock`; under it check `self._executor` (refuse with
InvalidTestStateError if set), create and start the executor, release the lock; later the `finally` block
clears `self._executor`. `unsafeCheck` is the same program with the check done BEFORE taking the lock (used
only for the counterexample theorem).
-/
namespace OpenHTF.TestObjectConc

inductive Pc
  | idle        -- not inside execute()
  | waiting     -- at `with self._lock`
  | inLock      -- holds the lock, has not looked at self._executor yet
  | creating    -- holds the lock, saw no executor
  | started     -- holds the lock, self._executor is its executor
  | running     -- lock released, its executor is self._executor (wait / finalize / callbacks)
deriving DecidableEq, Repr

structure S where
  pc : Nat → Pc := fun _ => .idle
  lock : Option Nat := none
  exec : Option Nat := none       -- which thread's executor `self._executor` is
  refused : Nat := 0
  completed : Nat := 0
  live : Nat := 0                 -- ghost: executors created and not yet finished
  maxLive : Nat := 0              -- ghost: most executors of this Test alive at once

def upd (f : Nat → Pc) (t : Nat) (v : Pc) : Nat → Pc := fun u => if u = t then v else f u

inductive Act
  | enter (t : Nat) | acquire (t : Nat) | check (t : Nat) | create (t : Nat) | release (t : Nat) | finish (t : Nat)
deriving DecidableEq, Repr

def step (s : S) : Act → Option S
  | .enter t => if s.pc t = .idle then some { s with pc := upd s.pc t .waiting } else none
  | .acquire t =>
    if s.pc t = .waiting ∧ s.lock = none then some { s with pc := upd s.pc t .inLock, lock := some t } else none
  | .check t =>
    if s.pc t = .inLock then
      (if s.exec.isSome then some { s with pc := upd s.pc t .idle, lock := none, refused := s.refused + 1 }
       else some { s with pc := upd s.pc t .creating })
    else none
  | .create t =>
    if s.pc t = .creating then
      some { s with pc := upd s.pc t .started, exec := some t, live := s.live + 1, maxLive := max s.maxLive (s.live + 1) }
    else none
  | .release t => if s.pc t = .started then some { s with pc := upd s.pc t .running, lock := none } else none
  | .finish t =>
    if s.pc t = .running then
      some { s with pc := upd s.pc t .idle, exec := none, completed := s.completed + 1, live := s.live - 1 }
    else none

def run : S → List Act → Option S
  | s, [] => some s
  | s, a :: as => match step s a with
    | none => none
    | some s' => run s' as

/-- a thread whose executor is alive -/
def active (s : S) (t : Nat) : Bool := s.pc t == .started || s.pc t == .running

/-! the variant with the check outside the lock (what a "fail fast before queueing on the lock" rewrite does) -/
inductive UPc | idle | checked | creating | started | running
deriving DecidableEq, Repr

structure US where
  pc : Nat → UPc := fun _ => .idle
  lock : Option Nat := none
  exec : Option Nat := none
  live : Nat := 0
  maxLive : Nat := 0

inductive UAct | check (t : Nat) | acquire (t : Nat) | create (t : Nat) | release (t : Nat) | finish (t : Nat)
deriving DecidableEq, Repr

def uupd (f : Nat → UPc) (t : Nat) (v : UPc) : Nat → UPc := fun u => if u = t then v else f u

def ustep (s : US) : UAct → Option US
  | .check t => if s.pc t = .idle ∧ s.exec.isNone then some { s with pc := uupd s.pc t .checked } else none
  | .acquire t => if s.pc t = .checked ∧ s.lock = none then some { s with pc := uupd s.pc t .creating, lock := some t } else none
  | .create t =>
    if s.pc t = .creating then
      some { s with pc := uupd s.pc t .started, exec := some t, live := s.live + 1, maxLive := max s.maxLive (s.live + 1) }
    else none
  | .release t => if s.pc t = .started then some { s with pc := uupd s.pc t .running, lock := none } else none
  | .finish t => if s.pc t = .running then some { s with pc := uupd s.pc t .idle, exec := none, live := s.live - 1 } else none

def urun : US → List UAct → Option US
  | s, [] => some s
  | s, a :: as => match ustep s a with
    | none => none
    | some s' => urun s' as

end OpenHTF.TestObjectConc
