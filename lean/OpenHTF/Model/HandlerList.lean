/-
C19 — the handler list of the `openhtf` logger shared by concurrently running tests (openhtf/util/logs.py
`initialize_record_handler` / `remove_record_handler`): registration appends to the list in place, removal builds a
filtered copy and stores it (copy-on-write, so that a dispatch iterating the old list is not disturbed); both run
under `_RECORD_HANDLERS_LOCK`. Steps are single statements. Import-free, executable.
-/
namespace OpenHTF.HandlerList

structure S where
  cur : List Nat := []                    -- the list object currently bound to `htf_logger.handlers`
  lock : Option Nat := none               -- `_RECORD_HANDLERS_LOCK`
  pc : Nat → Nat := fun _ => 0            -- 0 outside, 1 holds the lock, 2 holds the lock and has built the filtered copy
  snap : Nat → List Nat := fun _ => []    -- the filtered copy a remover has built
  victim : Nat → Nat := fun _ => 0        -- the handler that remover is removing
  live : List Nat := []                   -- ghost: handlers registered and not (yet) removed

def updP (f : Nat → Nat) (t v : Nat) : Nat → Nat := fun u => if u = t then v else f u
def updL (f : Nat → List Nat) (t : Nat) (v : List Nat) : Nat → List Nat := fun u => if u = t then v else f u

inductive Act
  | acquire (t : Nat)
  | add (t h : Nat)          -- `htf_logger.addHandler(h)` (h is new)
  | filter (t h : Nat)       -- the list comprehension: every handler except h
  | store (t : Nat)          -- `htf_logger.handlers = <the copy>`
  | release (t : Nat)
  | addUnlocked (h : Nat)    -- only for the counterexample: registration without the lock
deriving DecidableEq, Repr

def step (s : S) : Act → Option S
  | .acquire t => if s.pc t = 0 ∧ s.lock = none then some { s with lock := some t, pc := updP s.pc t 1 } else none
  | .add t h => if s.pc t = 1 ∧ h ∉ s.cur ∧ h ∉ s.live then some { s with cur := s.cur ++ [h], live := s.live ++ [h] } else none
  | .filter t h => if s.pc t = 1 then
      some { s with snap := updL s.snap t (s.cur.filter (· != h)), victim := updP s.victim t h, pc := updP s.pc t 2 } else none
  | .store t => if s.pc t = 2 then
      some { s with cur := s.snap t, live := s.live.filter (· != s.victim t), pc := updP s.pc t 1 } else none
  | .release t => if s.pc t = 1 then some { s with lock := none, pc := updP s.pc t 0 } else none
  | .addUnlocked h => if h ∉ s.cur ∧ h ∉ s.live then some { s with cur := s.cur ++ [h], live := s.live ++ [h] } else none

def run : S → List Act → Option S
  | s, [] => some s
  | s, a :: as => match step s a with
    | none => none
    | some s' => run s' as

/-- histories of the real protocol: registration always under the lock -/
def isLocked : Act → Bool
  | .addUnlocked _ => false
  | _ => true

def locked (as : List Act) : Bool := as.all isLocked

end OpenHTF.HandlerList
