/-
C18 — model of `util.SubscribableStateMixin` (openhtf/util/__init__.py): `asdict_with_event` and
`notify_update`, as an interleaving transition system with any number of watchers (one index per
(watcher, iteration): every call of `asdict_with_event` creates a fresh event) and any number of
updaters. Import-free, executable; the same `step` is used by the theorems and by the driver.

    asdict_with_event:   event = Event()              (pc 0: created, unset, not registered)
                         with self._lock:             wAcq
                           self._update_events.add()  wAdd
                                                      wRel   (pc 2: registered)
                         return self._asdict(), event wSnap  (pc 3: snapshot taken)
    notify_update:       with self._lock:             uAcq
                           for e in events: e.set()   uSetAll
                           events.clear()             uClear
                                                      uRel
    an updater changes the state (uMutate) and afterwards calls notify_update.
-/
namespace OpenHTF.Subscribe

structure W where
  pc : Nat := 0
  isSet : Bool := false
  snap : Nat := 0
  /-- ghost: the set-all step of some notification happened after this watcher's snapshot -/
  notifiedAfterSnap : Bool := false
deriving DecidableEq, Repr

/-- who is inside `with self._lock` and how far -/
inductive Holder
  | free
  | watcher (i : Nat) (added : Bool)
  | updater (u : Nat) (stage : Nat)     -- 0 acquired, 1 all events set, 2 set cleared
deriving DecidableEq, Repr

structure S where
  version : Nat := 0                    -- the subscribable state, abstracted to a change counter
  holder : Holder := .free
  members : List Nat := []              -- `_update_events` (indices of registered, not yet notified events)
  ws : Nat → W := fun _ => {}
  dirty : Nat → Bool := fun _ => false  -- updater u changed the state and has not yet completed set-all

inductive Act
  | wAcq (i : Nat) | wAdd (i : Nat) | wRel (i : Nat) | wSnap (i : Nat)
  | uMutate (u : Nat) | uAcq (u : Nat) | uSetAll (u : Nat) | uClear (u : Nat) | uRel (u : Nat)
deriving DecidableEq, Repr

def updW (ws : Nat → W) (i : Nat) (w : W) : Nat → W := fun j => if j = i then w else ws j
def updB (f : Nat → Bool) (i : Nat) (b : Bool) : Nat → Bool := fun j => if j = i then b else f j

/-- `none` = the action is not enabled in this state (lock not available, or not this thread's next step) -/
def step (s : S) : Act → Option S
  | .wAcq i =>
    if s.holder = .free ∧ (s.ws i).pc = 0 then some { s with holder := .watcher i false } else none
  | .wAdd i =>
    if s.holder = .watcher i false then some { s with holder := .watcher i true, members := i :: s.members } else none
  | .wRel i =>
    if s.holder = .watcher i true then some { s with holder := .free, ws := updW s.ws i { s.ws i with pc := 2 } } else none
  | .wSnap i =>
    if (s.ws i).pc = 2 then some { s with ws := updW s.ws i { s.ws i with pc := 3, snap := s.version } } else none
  | .uMutate u =>
    if s.holder = .updater u 0 ∨ s.holder = .updater u 1 ∨ s.holder = .updater u 2 then none
    else some { s with version := s.version + 1, dirty := updB s.dirty u true }
  | .uAcq u =>
    if s.holder = .free then some { s with holder := .updater u 0 } else none
  | .uSetAll u =>
    if s.holder = .updater u 0 then
      some { s with holder := .updater u 1, dirty := updB s.dirty u false,
                    ws := fun j => let w := s.ws j
                      { w with isSet := w.isSet || decide (j ∈ s.members),
                               notifiedAfterSnap := w.notifiedAfterSnap || decide (w.pc = 3) } }
    else none
  | .uClear u =>
    if s.holder = .updater u 1 then some { s with holder := .updater u 2, members := [] } else none
  | .uRel u =>
    if s.holder = .updater u 2 then some { s with holder := .free } else none

def run (s : S) : List Act → Option S
  | [] => some s
  | a :: as => (step s a).bind (run · as)

/-- executable replay that also reports the index of the first action that is not enabled -/
def replay (s : S) (k : Nat) : List Act → Except Nat S
  | [] => .ok s
  | a :: as => match step s a with
    | some s' => replay s' (k + 1) as
    | none => .error k

end OpenHTF.Subscribe

/-! ### Notification discipline of `TestState` (which methods change the subscribable state, and whether
they end with `notify_update`) -/
namespace OpenHTF.Subscribe

inductive Ev | chg | notify
deriving DecidableEq, Repr

inductive Method
  | markTestStarted      -- test_record.start_time_millis; notify
  | setStatusRunning     -- _status = RUNNING; notify
  | phaseStart           -- running_phase_state = PhaseState; notify
  | phaseEnd             -- finalize, add_phase_record, running_phase_state = None; notify
  | measurementSet       -- PhaseState._notify -> test_state.notify_update
  | attach               -- PhaseState.attach: record + cached dict, NO notification of its own
  | logRecord            -- RecordHandler.emit: add_log_record; notify
  | dutIdSet             -- TestApi.dut_id setter; notify
  | stopRunningPhase     -- abort path: running_phase_state = None, NO notification of its own
  | finalize             -- outcome, end time, status COMPLETED; notify
deriving DecidableEq, Repr

def method : Method → List Ev
  | .markTestStarted => [.chg, .notify]
  | .setStatusRunning => [.chg, .notify]
  | .phaseStart => [.chg, .notify]
  | .phaseEnd => [.chg, .chg, .chg, .notify]
  | .measurementSet => [.chg, .notify]
  | .attach => [.chg]
  | .logRecord => [.chg, .notify]
  | .dutIdSet => [.chg, .notify]
  | .stopRunningPhase => [.chg]
  | .finalize => [.chg, .chg, .chg, .notify]

def history (ms : List Method) : List Ev := ms.flatMap method

/-- every state change in the event list is followed (later) by a notification -/
def everyMutNotified : List Ev → Bool
  | [] => true
  | .chg :: rest => rest.contains .notify && everyMutNotified rest
  | .notify :: rest => everyMutNotified rest

end OpenHTF.Subscribe
