import OpenHTF.Model.Exec
/-
C08 / C09 — plug lifecycle and the run around the phases: `PlugManager` (initialize_plugs,
tear_down_plugs, provide_plugs), `TestExecutor._thread_proc` with plugs, `Test.execute()`'s callbacks.
Plug classes are naturals. The set iteration order of `initialize_plugs` is a parameter (`order`).
-/
namespace OpenHTF.Plugs
open OpenHTF.Exec

inductive TearDownBeh | ok | raises | hangs
deriving DecidableEq, Repr

structure PlugBeh where
  ctorRaises : Nat → Bool               -- per class
  tearDown : Nat → TearDownBeh

structure PSt where
  live : List Nat := []                 -- `_plugs_by_type`, in construction order
  events : List Ev := []

/-- `tear_down_plugs`: every live instance, in construction order, each in its own killable thread
    (a raising or hanging tearDown is contained); then the maps are cleared -/
def tearDownPlugs (s : PSt) : PSt :=
  { live := [], events := s.events ++ s.live.map Ev.plugTearDown }

/-- `initialize_plugs(types)`: skip classes that already have an instance; a constructor that raises
    tears down everything constructed so far and re-raises (`true` = failed) -/
def initializePlugs : List Nat → PlugBeh → PSt → PSt × Bool
  | [], _, s => (s, false)
  | c :: cs, b, s =>
    if s.live.contains c then initializePlugs cs b s
    else if b.ctorRaises c then
      (tearDownPlugs { s with events := s.events ++ [.plugCtorFailed c] }, true)
    else initializePlugs cs b { live := s.live ++ [c], events := s.events ++ [.plugCtor c] }

structure Run where
  test : Test
  startPlugs : List Nat := []           -- classes test_start requests, in the order they are constructed
  allPlugs : List Nat := []             -- `_plug_types` in the order the set is iterated
  beh : PlugBeh
  callbacks : List Bool := []           -- one entry per output callback: does it raise?

structure Result where
  st : St                               -- executor state (records, call log of bodies/diagnosers)
  outcome : TO
  events : List Ev                      -- the whole call log: plugs, bodies, diagnosers, callbacks
  returned : Bool                       -- value of Test.execute()
  liveAfter : List Nat                  -- plugs still alive when execute() returns

/-- the executor events are appended to the plug-level log as they happen -/
def sync (p : PSt) (before after : St) : PSt :=
  { p with events := p.events ++ after.events.drop before.events.length }

def testDiagEvents (n : Nat) : List Ev := (List.range n).map Ev.testDiag

/-- `_execute_test_teardown` (plug tearDown, then the outcome) followed by the callback loop of
    `Test.execute()` (every callback once, in registration order, a raising one is logged and skipped over) -/
def finishRun (callbacks : List Bool) (p : PSt) (st : St) : Result :=
  let p := tearDownPlugs p
  let o := finalize st
  { st := st, outcome := o, events := p.events ++ (List.range callbacks.length).map Ev.callback,
    returned := o == .pass, liveAfter := p.live }

/-- test_start: its plugs first, then the phase. The flag says "go straight to the teardown". -/
def runStart (cfg : Cfg) (r : Run) : PSt × St × Bool :=
  match r.test.testStart with
  | none => ({}, {}, false)
  | some ph =>
    let i := initializePlugs r.startPlugs r.beh {}
    if i.2 then (i.1, setLast {} (.exc false), true)
    else
      let e := executePhase cfg ph none {}
      let p := sync i.1 {} e.1
      if e.2.isTerminal then (p, setLast e.1 e.2, true) else (p, e.1, false)

/-- `_thread_proc` + `_execute_test_teardown` + the callback loop of `execute()` -/
def execute (cfg : Cfg) (r : Run) : Result :=
  let a := runStart cfg r
  if a.2.2 then finishRun r.callbacks a.1 a.2.1
  else
    let i := initializePlugs r.allPlugs r.beh a.1
    if i.2 then finishRun r.callbacks i.1 (setLast a.2.1 (.exc false))
    else
      let e := execAb cfg r.test.nodes none a.2.1
      let p := sync i.1 a.2.1 e.1
      let st := runTestDiagnosers e.1 r.test.testDiags
      finishRun r.callbacks { p with events := p.events ++ testDiagEvents r.test.testDiags.length } st

end OpenHTF.Plugs
