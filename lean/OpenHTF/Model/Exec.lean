import OpenHTF.Gen.Constants
/-
Shared executor model (C01 C02 C03 C05 C08 C09): `TestExecutor` + `PhaseExecutor` + `TestState` +
`PhaseState`, sequential part (no abort). Import-free, executable. Function by function after the
Python; names follow the code. External behaviour (phase bodies, run_if, measurements, diagnosers)
is an oracle: `Phase.beh k` describes the k-th invocation of the body.
-/
namespace OpenHTF.Exec

/-- `PhaseResult` -/
inductive PR | cont | failCont | rep | skip | stop | failSub
deriving DecidableEq, Repr

/-- what one invocation of a phase body does -/
inductive Raw
  | ret (r : PR)              -- returned None/CONTINUE or another PhaseResult
  | invalid                   -- returned something that is not a PhaseResult
  | exc (failureExc : Bool)   -- raised; flag = the exception type is listed in failure_exceptions
  | timeout                   -- still running at the deadline
deriving DecidableEq, Repr

/-- state of one declared measurement when the body ended -/
inductive MO | pass | fail | unset | partialPass | partialFail | partialRaise
deriving DecidableEq, Repr

/-- what one phase diagnoser does when run: the (result id, is_failure) diagnoses it returns, or raises -/
inductive DiagRun | results (rs : List (Nat × Bool)) | raises
deriving DecidableEq, Repr

structure Inv where
  raw : Raw
  meas : List MO := []
  diags : List DiagRun := []
deriving DecidableEq, Repr

/-- the `result` stored in a record (`PhaseExecutionOutcome.phase_result`, by kind) -/
inductive Res | pr (r : PR) | exc (failureExc : Bool) | timeout
deriving DecidableEq, Repr

def Res.isTerminal : Res → Bool
  | .exc _ | .timeout | .pr .stop => true
  | _ => false

/-- `PhaseOutcome` -/
inductive PO | pass | fail | skip | error
deriving DecidableEq, Repr

structure Opts where
  repeatLimit : Option Nat := none
  forceRepeat : Bool := false
  repeatOnMeasFail : Bool := false
  repeatOnTimeout : Bool := false
  stopOnMeasFail : Bool := false
  /-- `none` = no run_if; `some f`: `f k` is the k-th evaluation, `none` = it raises -/
  runIf : Option (Nat → Option Bool) := none

structure Phase where
  id : Nat
  opts : Opts := {}
  beh : Nat → Inv

inductive CondOn | all | any | notAny | notAll
deriving DecidableEq, Repr

structure DiagCond where
  on : CondOn
  results : List Nat
deriving DecidableEq, Repr

inductive CkKind | last | allPrev | subtestPrev | diag (c : DiagCond)
deriving DecidableEq, Repr

structure Ckpt where
  id : Nat
  failSubtest : Bool          -- action: FAIL_SUBTEST (true) or STOP (false)
  kind : CkKind
deriving DecidableEq, Repr

inductive Node where
  | phase (p : Phase)
  | seq (ns : List Node)
  | group (setup main teardown : List Node)     -- an absent part is the empty list
  | subtest (name : Nat) (ns : List Node)
  | branch (id : Nat) (c : DiagCond) (ns : List Node)
  | checkpoint (c : Ckpt)

structure Cfg where
  stopOnFirstFailure : Bool := false
  allowUnset : Bool := false
  defaultRepeatLimit : Nat := Gen.c05_defaultRepeatLimit

structure PhaseRec where
  id : Nat
  outcome : PO
  result : Res
  subtest : Option Nat := none
  diagResults : List Nat := []
  failDiagResults : List Nat := []
deriving DecidableEq, Repr

/-- `SubtestOutcome` -/
inductive SO | pass | fail | stop
deriving DecidableEq, Repr

inductive Ev
  | body (id k : Nat)                 -- k-th invocation of the body of phase `id`
  | runIf (id k : Nat)
  | diag (id k j : Nat)               -- j-th diagnoser of the k-th invocation
  | plugCtor (c : Nat)                -- plug class c constructed
  | plugCtorFailed (c : Nat)          -- constructor of plug class c raised
  | plugTearDown (c : Nat)            -- tearDown of the instance of class c called
  | testDiag (j : Nat)                -- j-th test diagnoser run
  | callback (j : Nat)                -- j-th output callback called
deriving DecidableEq, Repr

structure St where
  phases : List PhaseRec := []
  subtests : List (Nat × SO) := []
  branches : List (Nat × Bool) := []
  checkpoints : List (Nat × Option Nat × Res) := []
  diagnoses : List (Nat × Bool) := []        -- test_record.diagnoses (result id, is_failure)
  store : List Nat := []                     -- DiagnosesStore: result ids present
  last : Option Res := none                  -- `_last_outcome` (first terminal outcome)
  subFail : Bool := false                    -- current subtest record's outcome is FAIL
  bodyCalls : List Nat := []                 -- phase ids, one entry per body invocation so far
  runIfCalls : List Nat := []
  events : List Ev := []

/-- `_ExecutorReturn` -/
inductive Ret | cont | term
deriving DecidableEq, Repr

def Ret.max : Ret → Ret → Ret
  | .cont, .cont => .cont
  | _, _ => .term

def count (l : List Nat) (id : Nat) : Nat := (l.filter (· == id)).length

/-! ### one invocation: `PhaseExecutorThread._thread_proc` + `PhaseState.finalize` -/

/-- the result the phase thread reports -/
def threadResult (inSub : Bool) : Raw → Res
  | .ret .failSub => if inSub then .pr .failSub else .exc false    -- InvalidPhaseResultError
  | .ret r => .pr r
  | .invalid => .exc false
  | .exc fe => .exc fe
  | .timeout => .timeout

/-- `_finalize_measurements`: a PARTIALLY_SET measurement whose validation raises replaces a
    non-terminal result by the exception -/
def finalizeMeasurements (res : Res) (meas : List MO) : Res :=
  if meas.any (· == .partialRaise) && !res.isTerminal then .exc false else res

def measOutcomeAfter : MO → MO
  | .partialPass => .pass
  | .partialFail => .fail
  | .partialRaise => .fail
  | m => m

/-- `_measurements_pass` -/
def measurementsPass (cfg : Cfg) (meas : List MO) : Bool :=
  meas.all (fun m => let m := measOutcomeAfter m; m == .pass || (cfg.allowUnset && m == .unset))

/-- `_set_prediagnosis_phase_outcome`: returns (outcome, possibly replaced result) -/
def prediagnosis (cfg : Cfg) (o : Opts) (res : Res) (hitLimit : Bool) (meas : List MO) : PO × Res :=
  if res.isTerminal || hitLimit then (.error, res)
  else if res == .pr .rep || res == .pr .skip then (.skip, res)
  else if res == .pr .failSub then (.fail, res)
  else if res == .pr .failCont then (.fail, res)
  else if !measurementsPass cfg meas then (.fail, if o.stopOnMeasFail then .pr .stop else res)
  else (.pass, res)

/-- one diagnoser: its diagnoses are collected; one that raises replaces a non-terminal result -/
def diagStep (acc : Res × List (Nat × Bool) × Nat) : DiagRun → Res × List (Nat × Bool) × Nat
  | .results rs => (acc.1, acc.2.1 ++ rs, acc.2.2 + 1)
  | .raises => (if acc.1.isTerminal then acc.1 else .exc false, acc.2.1, acc.2.2 + 1)

/-- `_execute_phase_diagnosers`: runs every diagnoser (unless the result is REPEAT/SKIP).
    Returns (result, diagnoses produced, number run). -/
def runDiagnosers (res : Res) (ds : List DiagRun) : Res × List (Nat × Bool) × Nat :=
  if res == .pr .rep || res == .pr .skip then (res, [], 0)
  else ds.foldl diagStep (res, [], 0)

/-- `_set_postdiagnosis_phase_outcome` -/
def postdiagnosis (o : PO) (res : Res) (failDiags : List Nat) : PO :=
  if o == .error then .error
  else if res.isTerminal then .error
  else if o != .pass then o
  else if !failDiags.isEmpty then .fail
  else .pass

structure InvOut where
  outcome : PO
  recResult : Res            -- `phase_record.result`
  effective : Res            -- what `_execute_phase_once` returns (`override_result or phase_state.result`)
  diagnoses : List (Nat × Bool)
  diagsRun : Nat

/-- everything between the body's end and the written record -/
def finalizeInvocation (cfg : Cfg) (o : Opts) (inSub isLast : Bool) (inv : Inv) : InvOut :=
  let r0 := threadResult inSub inv.raw
  let hitLimit := r0 == .pr .rep && isLast
  let r1 := finalizeMeasurements r0 inv.meas
  let pre := prediagnosis cfg o r1 hitLimit inv.meas
  let dg := runDiagnosers pre.2 inv.diags
  let failDiags := (dg.2.1.filter (·.2)).map (·.1)
  let outcome := postdiagnosis pre.1 dg.1 failDiags
  { outcome := outcome, recResult := dg.1, effective := if hitLimit then .pr .stop else dg.1,
    diagnoses := dg.2.1, diagsRun := dg.2.2 }

/-! ### `PhaseExecutor.execute_phase` -/

/-- `_should_repeat` (after the `fix:` commits: terminal outcomes are not force-repeated, and the
    last record is only consulted when one exists) -/
def shouldRepeat (o : Opts) (eff : Res) (phases : List PhaseRec) : Bool :=
  if eff == .timeout && o.repeatOnTimeout then true
  else if eff == .pr .rep then true
  else if eff.isTerminal then false
  else if o.forceRepeat then true
  else if o.repeatOnMeasFail then
    match phases.getLast? with
    | some r => r.outcome == .fail
    | none => false
  else false

def repeatLimit (cfg : Cfg) (o : Opts) : Nat :=
  match o.repeatLimit with
  | some n => if n = 0 then cfg.defaultRepeatLimit else n
  | none => cfg.defaultRepeatLimit

def addDiagnoses (st : St) (ds : List (Nat × Bool)) : St :=
  { st with diagnoses := st.diagnoses ++ ds, store := st.store ++ ds.map (·.1) }

/-- `_execute_phase_once`: run_if, body, record. Returns the effective result. -/
def executePhaseOnce (cfg : Cfg) (p : Phase) (sub : Option Nat) (isLast : Bool) (st : St) : St × Res :=
  let afterRunIf : St × Option Res :=
    match p.opts.runIf with
    | none => (st, none)
    | some f =>
      let k := count st.runIfCalls p.id
      let st := { st with runIfCalls := st.runIfCalls ++ [p.id], events := st.events ++ [.runIf p.id k] }
      match f k with
      | none => (st, some (.exc false))          -- run_if raised: terminal, no record
      | some false => (st, some (.pr .skip))     -- excluded: no body, no record
      | some true => (st, none)
  match afterRunIf with
  | (st, some r) => (st, r)
  | (st, none) =>
    let k := count st.bodyCalls p.id
    let inv := p.beh k
    let out := finalizeInvocation cfg p.opts sub.isSome isLast inv
    let evs := [Ev.body p.id k] ++ (List.range out.diagsRun).map (fun j => Ev.diag p.id k j)
    let rec_ : PhaseRec :=
      { id := p.id, outcome := out.outcome, result := out.recResult, subtest := sub,
        diagResults := (out.diagnoses.filter (fun d => !d.2)).map (·.1),
        failDiagResults := (out.diagnoses.filter (·.2)).map (·.1) }
    let st := addDiagnoses { st with bodyCalls := st.bodyCalls ++ [p.id], events := st.events ++ evs,
                                     phases := st.phases ++ [rec_] } out.diagnoses
    (st, out.effective)

/-- the `while` loop of `execute_phase`; `fuel` = remaining iterations, `n` = repeat_count -/
def executePhaseLoop (cfg : Cfg) (p : Phase) (sub : Option Nat) (limit : Nat) : Nat → Nat → St → St × Res
  | 0, _, st => (st, .timeout)     -- not reached: fuel = limit
  | fuel+1, n, st =>
    let isLast := decide (n ≥ limit)
    let r := executePhaseOnce cfg p sub isLast st
    -- (after `fix:` d4399cb4) a phase excluded by its run_if wrote no record: it is not repeated
    let invoked := decide (st.phases.length < r.1.phases.length)
    if invoked && shouldRepeat p.opts r.2 r.1.phases && !isLast then executePhaseLoop cfg p sub limit fuel (n + 1) r.1
    else r

def executePhase (cfg : Cfg) (p : Phase) (sub : Option Nat) (st : St) : St × Res :=
  let limit := repeatLimit cfg p.opts
  executePhaseLoop cfg p sub limit limit 1 st

/-- `skip_phase`: a record with outcome SKIP, nothing evaluated, nothing run -/
def skipPhase (p : Phase) (sub : Option Nat) (st : St) : St :=
  { st with phases := st.phases ++ [{ id := p.id, outcome := .skip, result := .pr .skip, subtest := sub }] }

/-! ### `TestExecutor._execute_*` -/

def setLast (st : St) (r : Res) : St := { st with last := st.last <|> some r }

/-- what the executor does with the outcome of a phase or checkpoint: a terminal one is remembered
    (the first one only) and returns TERMINAL; FAIL_SUBTEST marks the current subtest record -/
def finishNode (st : St) (outcome : Res) : St × Ret :=
  if outcome.isTerminal then (setLast st outcome, .term)
  else if outcome == .pr .failSub then ({ st with subFail := true }, .cont)
  else (st, .cont)

/-- the last phase record written (if any) has outcome FAIL -/
def lastIsFail (st : St) : Bool :=
  match st.phases.getLast? with
  | some rec_ => rec_.outcome == .fail
  | none => false

/-- stop_on_first_failure: a FAIL record (the last one written) turns the outcome into STOP -/
def sofOutcome (cfg : Cfg) (st : St) (r : Res) : Res :=
  if cfg.stopOnFirstFailure && lastIsFail st then .pr .stop else r

/-- `TestExecutor._execute_phase` for a phase that is not skipped: the invocation loop, then
    stop_on_first_failure, then the terminal / FAIL_SUBTEST bookkeeping -/
def runPhase (cfg : Cfg) (p : Phase) (sub : Option Nat) (st : St) : St × Ret :=
  let r := executePhase cfg p sub st
  finishNode r.1 (sofOutcome cfg r.1 r.2)

/-- `TestExecutor._execute_phase` -/
def execPhaseNode (cfg : Cfg) (p : Phase) (sub : Option Nat) (td : Bool) (st : St) : St × Ret :=
  if !td && sub.isSome && st.subFail then (skipPhase p sub st, .cont)
  else runPhase cfg p sub st

def condCheck (c : DiagCond) (store : List Nat) : Bool :=
  let has := c.results.map (fun d => store.contains d)
  match c.on with
  | .all => has.all id
  | .any => has.any id
  | .notAny => !has.any id
  | .notAll => !has.all id

/-- `Checkpoint.get_result` followed by the FAIL_SUBTEST-outside-subtest test of `evaluate_checkpoint` -/
def checkpointResult (c : Ckpt) (sub : Option Nat) (st : St) : Res :=
  let triggered : Option Bool :=
    match c.kind with
    | .diag dc => some (condCheck dc st.store)
    | .last => match st.phases.getLast? with
      | none => none                               -- NoPhasesFoundError
      | some r => some (r.outcome == .fail)
    | .allPrev => if st.phases.isEmpty then none else some (st.phases.any (·.outcome == .fail))
    | .subtestPrev =>
      if st.phases.isEmpty then none
      else match sub with
        | some name => some (st.phases.any (fun r => r.subtest == some name && r.outcome == .fail))
        | none => some (st.phases.any (·.outcome == .fail))
  match triggered with
  | none => .exc false
  | some false => .pr .cont
  | some true =>
    if c.failSubtest then (if sub.isSome then .pr .failSub else .exc false) else .pr .stop

/-- a checkpoint that is not skipped: evaluated once, recorded once, acts as a failed phase if triggered -/
def evalCheckpoint (c : Ckpt) (sub : Option Nat) (st : St) : St × Ret :=
  let r := checkpointResult c sub st
  finishNode { st with checkpoints := st.checkpoints ++ [(c.id, sub, r)] } r

/-- `TestExecutor._execute_checkpoint` -/
def execCheckpoint (c : Ckpt) (sub : Option Nat) (td : Bool) (st : St) : St × Ret :=
  if !td && sub.isSome && st.subFail then
    ({ st with checkpoints := st.checkpoints ++ [(c.id, sub, .pr .skip)] }, .cont)
  else evalCheckpoint c sub st

mutual
/-- `_execute_node` -/
def exec (cfg : Cfg) : Node → Option Nat → Bool → St → St × Ret
  | .phase p, sub, td, st => execPhaseNode cfg p sub td st
  | .checkpoint c, sub, td, st => execCheckpoint c sub td st
  | .seq ns, sub, td, st => if td then execTd cfg ns sub st else execAb cfg ns sub st
  | .subtest name ns, sub, td, st =>
    -- `_execute_subtest`: a fresh record, initially FAIL if the outer subtest has failed
    let st0 := { st with subFail := sub.isSome && st.subFail }
    let r := if td then execTd cfg ns (some name) st0 else execAb cfg ns (some name) st0
    let so : SO := if r.2 == .term then .stop else if r.1.subFail then .fail else .pass
    ({ r.1 with subtests := r.1.subtests ++ [(name, so)], subFail := st.subFail }, r.2)
  | .branch id c ns, sub, td, st =>
    if !td && sub.isSome && st.subFail then (st, .cont)
    else if condCheck c st.store then
      let r := if td then execTd cfg ns sub st else execAb cfg ns sub st
      ({ r.1 with branches := r.1.branches ++ [(id, true)] }, r.2)
    else ({ st with branches := st.branches ++ [(id, false)] }, .cont)
  | .group s m t, sub, td, st =>
    -- `_execute_phase_group` (after the `fix:` commit: nothing is skipped inside a teardown)
    let skip0 := !td && sub.isSome && st.subFail
    let r1 := if td then execTd cfg s sub st else execAb cfg s sub st
    if r1.2 != .cont then r1 else
    let skipTd := skip0 || (!td && sub.isSome && r1.1.subFail)
    let r2 := if td then execTd cfg m sub r1.1 else execAb cfg m sub r1.1
    let r3 := if !skipTd then execTd cfg t sub r2.1 else execAb cfg t sub r2.1
    (r3.1, r2.2.max r3.2)
/-- `_execute_abortable_sequence` (no abort pending) -/
def execAb (cfg : Cfg) : List Node → Option Nat → St → St × Ret
  | [], _, st => (st, .cont)
  | n :: ns, sub, st =>
    let r := exec cfg n sub false st
    if r.2 != .cont then r else execAb cfg ns sub r.1
/-- `_execute_teardown_sequence`: every node, whatever the earlier ones returned -/
def execTd (cfg : Cfg) : List Node → Option Nat → St → St × Ret
  | [], _, st => (st, .cont)
  | n :: ns, sub, st =>
    let r1 := exec cfg n sub true st
    let r2 := execTd cfg ns sub r1.1
    (r2.1, r1.2.max r2.2)
end

/-! ### whole run: `_thread_proc` (without plugs; see Model/Plugs) and finalisation -/

/-- test diagnoser outcomes, in order -/
def runTestDiagnosers (st : St) (ds : List DiagRun) : St :=
  ds.foldl (fun st d =>
    match d with
    | .results rs => addDiagnoses st rs
    | .raises => match st.last with
      | some r => if r.isTerminal then st else { st with last := some (.exc false) }
      | none => { st with last := some (.exc false) }) st

/-- `test_record.Outcome` -/
inductive TO | pass | fail | error | timeout | aborted
deriving DecidableEq, Repr

/-- `finalize_normally` (after the `fix:` commit: the empty record goes through the same checks) -/
def finalizeNormally (st : St) : TO :=
  if st.phases.any (·.outcome == .fail) then .fail
  else if !st.phases.isEmpty && st.phases.all (·.outcome == .skip) then .error
  else if st.diagnoses.any (·.2) then .fail
  else if st.subtests.any (·.2 == .fail) then .fail
  else .pass

/-- `_execute_test_teardown` without abort: `finalize_from_phase_outcome` or `finalize_normally` -/
def finalize (st : St) : TO :=
  match st.last with
  | some (.exc true) => .fail
  | some (.exc false) => .error
  | some .timeout => .timeout
  | some (.pr .stop) => .fail
  | _ => finalizeNormally st

structure Test where
  testStart : Option Phase := none
  nodes : List Node
  testDiags : List DiagRun := []

/-- `_thread_proc` with all plugs constructing fine -/
def runTest (cfg : Cfg) (t : Test) : St :=
  let afterStart : St × Bool :=
    match t.testStart with
    | none => ({}, false)
    | some p =>
      let r := executePhase cfg p none {}
      if r.2.isTerminal then (setLast r.1 r.2, true) else (r.1, false)
  if afterStart.2 then afterStart.1
  else
    let r := execAb cfg t.nodes none afterStart.1
    runTestDiagnosers r.1 t.testDiags

def outcome (cfg : Cfg) (t : Test) : TO := finalize (runTest cfg t)
/-- return value of `Test.execute()` -/
def executeReturns (cfg : Cfg) (t : Test) : Bool := outcome cfg t == .pass

end OpenHTF.Exec
