/-
C04 / C03(abort) — interleaving model of `TestExecutor.abort` / `_stop_phase_executor` /
`PhaseExecutor.stop` against the executor thread's accesses to the state they share
(openhtf/core/test_executor.py, phase_executor.py; after the `fix:` commit that keeps the stop
request in effect until a teardown sequence takes the teardown lock). Import-free, executable.

The executor appears as a constrained environment: any sequence of its visible actions that respects
the program order of `_execute_abortable_sequence` / `_execute_teardown_sequence` /
`execute_phase` / `_execute_phase_once` (the guards of the `e…` labels). abort() calls are serialized
(`Test.abort_from_sig_int` holds `Test._lock`; SIGINT handlers run one at a time on the main thread):
one call is in progress at a time, the first takes the normal path, later ones the forced path.

  executor                                             abort() (first)            abort() (later, force)
  eExec      publish `_phase_exec`                     aReadAbort  A1             aReadAbort -> forced
  eAbortCheck `_abort.is_set()` (abortable sequence)   aSetAbort   A2             aSetFull   `_full_abort.set()`
  eStopCheck2 `_stopping.is_set()` (repeat loop)       aReadExec   A3             aReadExec
  eCurAcq / eStopCheck3 / eStart | eRefuse / eCurRel   aTryTd      A4 try-acquire
              (`with _current_phase_thread_lock`)      aSetStop    A5             aSetStop
  eKillTimeout join_or_die gave up (timeout)           aCurAcq/aCurRel A6         aCurAcq/aCurRel
  eClear     `_current_phase_thread = None`            aKill       A7             aKill
  eTdAcq / eFaCheck / eReset / eTdRel                  aWait       A8 (or aGiveUp after cancel_timeout_s)
  eFinal     `_abort.is_set()` of the finalisation     aEnd        A9..A11 release, return
  pDie       the phase thread ends
-/
namespace OpenHTF.Abort

structure S where
  abort : Bool := false
  fullAbort : Bool := false
  stopping : Bool := false
  tdHolder : Nat := 0          -- teardown lock: 0 free, 1 executor, 2 the abort in progress
  eCount : Nat := 0            -- executor's re-entrant count
  curHolder : Nat := 0         -- `_current_phase_thread_lock`: 0 free, 1 executor, 2 abort
  published : Bool := false    -- `_phase_exec` is set
  cur : Bool := false          -- `_current_phase_thread` is set
  alive : Bool := false        -- the phase thread started last is alive
  abandoned : Bool := false    -- ... and was given up on (phase timeout, or cancel timeout)
  -- executor program-order state
  checked : Bool := false      -- abort check answered "not set"; no teardown sequence entered or left since
  armed2 : Bool := false       -- repeat-loop stop check answered "not set"
  ans3 : Option Bool := none   -- answer of the stop check under the lock
  started : Bool := false      -- thread started in this critical section
  faChecked : Bool := false    -- full-abort check answered "not set"; no reset / acquire / release since
  needReset : Bool := false    -- a teardown sequence took the lock and has not yet done its `reset_stop`
  killReq : Bool := false      -- kill() was called on the current phase thread by an abort
  finalised : Bool := false
  outcomeAborted : Bool := false
  -- the abort call in progress
  aPc : Nat := 0               -- 0 none; 1..10 first-abort path; 20..27 forced path
  aSaved : Nat := 0            -- pc of a call suspended by a nested SIGINT handler on the same thread (0: none)
  canDie : Bool := false       -- a nested call has returned into the call in progress (its KeyboardInterrupt may end it)
  sawCur : Bool := false
  nRet : Nat := 0              -- abort calls that have returned
  forcedRet : Bool := false    -- a forced abort call has returned
  -- ghosts (what the property is about)
  lateStart : Bool := false    -- a non-teardown phase thread was started after an abort call had returned
  lateTdStart : Bool := false  -- a teardown phase thread was started after a forced abort call had returned
  tdRefused : Bool := false    -- a teardown phase start was refused (stop flag set) while no forced abort was requested
  overlap : Bool := false      -- a phase thread was started while the previous one was alive and not given up on
  startAfterFinal : Bool := false
deriving DecidableEq, Repr

inductive Act
  | eExec | eAbortCheck | eStopCheck2 | eCurAcq | eStopCheck3 | eStart | eRefuse | eCurRel
  | eKillTimeout | eClear | eTdAcq | eFaCheck | eReset | eTdRel | eFinal | pDie
  | aBegin | aReadAbort | aSetAbort | aSetFull | aReadExec | aTryTd | aSetStop | aCurAcq | aCurRel | aKill
  | aWait | aGiveUp | aEnd | aNest | aKilled
deriving DecidableEq, Repr

/-- the call in progress returns; a call it had interrupted (nested signal handler) resumes -/
def ret (s : S) (forced : Bool) : S :=
  { s with aPc := s.aSaved, aSaved := 0, canDie := decide (s.aSaved ≠ 0), nRet := s.nRet + 1,
           forcedRet := s.forcedRet || forced }

/-- `none` = not enabled (blocked on a lock, or not the next step of that thread) -/
def step (s : S) : Act → Option S
  | .eExec => if !s.published then some { s with published := true } else none
  | .eAbortCheck =>
    if s.published && s.eCount = 0 && s.curHolder ≠ 1 && !s.finalised && !s.cur then some { s with checked := !s.abort } else none
  | .eStopCheck2 =>
    if s.published && s.curHolder ≠ 1 && !s.finalised && !s.cur then some { s with armed2 := !s.stopping } else none
  | .eCurAcq =>
    if s.curHolder = 0 && s.armed2 && !s.cur && !s.finalised &&
       (if s.eCount = 0 then s.checked else (s.faChecked && !s.needReset)) then
      some { s with curHolder := 1, armed2 := false, ans3 := none, started := false }
    else none
  | .eStopCheck3 =>
    if s.curHolder = 1 && s.ans3.isNone then some { s with ans3 := some s.stopping } else none
  | .eRefuse =>
    if s.curHolder = 1 && s.ans3 = some true then
      some { s with curHolder := 0, ans3 := none,
                    tdRefused := s.tdRefused || (decide (0 < s.eCount) && !s.fullAbort) }
    else none
  | .eStart =>
    if s.curHolder = 1 && s.ans3 = some false && !s.started then
      some { s with started := true, cur := true, alive := true, abandoned := false, killReq := false,
                    lateStart := s.lateStart || (decide (s.eCount = 0) && decide (1 ≤ s.nRet)),
                    lateTdStart := s.lateTdStart || (decide (0 < s.eCount) && s.forcedRet),
                    overlap := s.overlap || (s.alive && !s.abandoned),
                    startAfterFinal := s.startAfterFinal || s.finalised }
    else none
  | .eCurRel =>
    if s.curHolder = 1 && s.started then some { s with curHolder := 0, ans3 := none, started := false } else none
  | .eKillTimeout => if s.cur && s.curHolder ≠ 1 then some { s with abandoned := s.alive } else none
  | .eClear =>
    -- join_or_die returned: the thread ended, or was given up on, or a kill was requested
    if s.cur && s.curHolder ≠ 1 && (!s.alive || s.abandoned || s.killReq) then some { s with cur := false } else none
  | .eTdAcq =>
    if s.published && s.tdHolder ≠ 2 && s.curHolder ≠ 1 && !s.finalised && !s.cur then
      some { s with tdHolder := 1, eCount := s.eCount + 1, checked := false, faChecked := false, needReset := true }
    else none
  | .eFaCheck =>
    if 0 < s.eCount && s.curHolder ≠ 1 && !s.cur then some { s with faChecked := !s.fullAbort } else none
  | .eReset =>
    -- `if not self._full_abort.is_set(): reset_stop()`: only after a full-abort check that answered "not set";
    -- another check precedes the next phase start
    if 0 < s.eCount && s.faChecked && s.needReset && s.curHolder ≠ 1 && !s.cur then
      some { s with stopping := false, faChecked := false, needReset := false }
    else none
  | .eTdRel =>
    if s.eCount = 0 || s.curHolder = 1 || s.cur then none
    else if s.eCount = 1 then some { s with tdHolder := 0, eCount := 0, checked := false, faChecked := false, needReset := false }
    else some { s with eCount := s.eCount - 1, faChecked := false }
  | .eFinal =>
    if s.eCount = 0 && s.curHolder ≠ 1 && !s.finalised && !s.cur then
      some { s with finalised := true, outcomeAborted := s.abort, checked := false, armed2 := false }
    else none
  | .pDie => if s.alive then some { s with alive := false } else none
  -- abort()
  | .aBegin => if s.aPc = 0 then some { s with aPc := 1, canDie := false } else none
  -- a second SIGINT handler interrupts the abort() in progress on the same thread (re-entrant Test._lock). NOT
  -- modelled: a handler that lands inside the three-bytecode critical section of `_current_phase_thread_lock`
  -- or `TestExecutor._lock` of the interrupted call (those locks are not re-entrant; see DESIGN, known limits)
  | .aNest =>
    if s.aPc ≠ 0 ∧ s.aPc ≠ 7 ∧ s.aPc ≠ 24 ∧ s.aSaved = 0 then some { s with aSaved := s.aPc, aPc := 1, canDie := false } else none
  -- the call in progress is terminated by the KeyboardInterrupt a (nested) handler raised: `finally` / `with`
  -- release what it holds
  | .aKilled =>
    if s.aPc ≠ 0 ∧ s.aSaved = 0 ∧ s.canDie then
      some { s with aPc := 0, canDie := false, nRet := s.nRet + 1,
                    tdHolder := if s.tdHolder = 2 then 0 else s.tdHolder,
                    curHolder := if s.curHolder = 2 then 0 else s.curHolder }
    else none
  | .aReadAbort => if s.aPc = 1 then some { s with canDie := false, aPc := if s.abort then 20 else 2 } else none
  | .aSetAbort => if s.aPc = 2 then some { s with canDie := false, abort := true, aPc := 3 } else none
  | .aSetFull => if s.aPc = 20 then some { s with canDie := false, fullAbort := true, aPc := 21 } else none
  | .aReadExec =>
    if s.aPc = 3 then (if s.published then some { s with canDie := false, aPc := 4 } else some (ret s false))
    else if s.aPc = 21 then (if s.published then some { s with canDie := false, aPc := 22 } else some (ret s true))
    else none
  | .aTryTd =>
    if s.aPc = 4 then (if s.tdHolder = 0 then some { s with canDie := false, tdHolder := 2, aPc := 5 } else some (ret s false)) else none
  | .aSetStop =>
    if s.aPc = 5 then some { s with canDie := false, stopping := true, aPc := 6 }
    else if s.aPc = 22 then some { s with canDie := false, stopping := true, aPc := 23 }
    else none
  | .aCurAcq =>
    if (s.aPc = 6 || s.aPc = 23) && s.curHolder = 0 then some { s with canDie := false, curHolder := 2, aPc := s.aPc + 1 } else none
  | .aCurRel =>
    if s.aPc = 7 then some { s with canDie := false, curHolder := 0, sawCur := s.cur, aPc := if s.cur then 8 else 10 }
    else if s.aPc = 24 then (if s.cur then some { s with canDie := false, curHolder := 0, sawCur := true, aPc := 25 }
                             else some (ret { s with curHolder := 0, sawCur := false } true))
    else none
  | .aKill =>
    if s.aPc = 8 then some { s with canDie := false, aPc := 9, killReq := true }
    else if s.aPc = 25 then some { s with canDie := false, aPc := 26, killReq := true } else none
  | .aWait =>
    if (s.aPc = 9 || s.aPc = 26) && !s.alive then some { s with canDie := false, aPc := s.aPc + 1 } else none
  | .aGiveUp =>
    if s.aPc = 9 || s.aPc = 26 then some { s with canDie := false, abandoned := s.alive, aPc := s.aPc + 1 } else none
  | .aEnd =>
    if s.aPc = 10 then some (ret { s with tdHolder := 0 } false)      -- stop_running_phase; release; return
    else if s.aPc = 27 then some (ret s true)
    else none

def run (s : S) : List Act → Option S
  | [] => some s
  | a :: as => (step s a).bind (run · as)

def replay (s : S) (k : Nat) : List Act → Except Nat S
  | [] => .ok s
  | a :: as => match step s a with
    | some s' => replay s' (k + 1) as
    | none => .error k

end OpenHTF.Abort
