import OpenHTF.Model.Exec
/-
Specs for the executor properties, written independently of the model's control flow.
-/
namespace OpenHTF.Exec.Spec

/-- C05: the documented outcome of one invocation, as a priority list over what happened. -/
def phaseOutcome (cfg : Cfg) (o : Opts) (inSub isLast : Bool) (inv : Inv) : PO :=
  let diagRaises := inv.diags.any (· == .raises)
  let failDiag := inv.diags.any (fun d => match d with | .results rs => rs.any (·.2) | .raises => false)
  -- exception, invalid return value, timeout, STOP, FAIL_SUBTEST outside a subtest
  if inv.raw == .invalid || inv.raw == .timeout || inv.raw == .ret .stop
     || (match inv.raw with | .exc _ => true | _ => false) || (inv.raw == .ret .failSub && !inSub) then .error
  -- a validator that raises at phase end surfaces as an error of the phase
  else if inv.meas.any (· == .partialRaise) then .error
  -- REPEAT beyond the limit is an error, otherwise REPEAT and SKIP record a skip
  else if inv.raw == .ret .rep then (if isLast then .error else .skip)
  else if inv.raw == .ret .skip then .skip
  -- from here on the diagnosers run: one that raises is an error
  else if diagRaises then .error
  else if inv.raw == .ret .failCont || inv.raw == .ret .failSub then .fail
  else if !measurementsPass cfg inv.meas then (if o.stopOnMeasFail then .error else .fail)
  else if failDiag then .fail
  else .pass

/-- C05: how many diagnosers run for an invocation: all of them, unless the result is SKIP/REPEAT -/
def diagnosersRun (inSub : Bool) (inv : Inv) : Nat :=
  let r := finalizeMeasurements (threadResult inSub inv.raw) inv.meas
  if r == .pr .rep || r == .pr .skip then 0 else inv.diags.length

end OpenHTF.Exec.Spec
