import OpenHTF.Model.Exec
/-
Specs for the executor properties, written independently of the model's control flow.
-/
namespace OpenHTF.Exec.Spec

/-- C05: the documented outcome of one invocation, as a priority list over what happened. -/
def phaseOutcome (cfg : Cfg) (o : Opts) (inSub isLast : Bool) (inv : Inv) : PO :=
  let diagRaises := inv.diags.any (· == .raises)
  let failDiag := inv.diags.any (fun d => match d with | .results rs => rs.any (·.2) | .raises => false)
  -- exception, invalid return value, timeout, STOP, FAIL_SUBTEST outside a subtest
  if inv.raw == .invalid || inv.raw == .timeout || inv.raw == .ret .stop
     || (match inv.raw with | .exc _ => true | _ => false) || (inv.raw == .ret .failSub && !inSub) then .error
  -- a validator that raises at phase end surfaces as an error of the phase
  else if inv.meas.any (· == .partialRaise) then .error
  -- REPEAT beyond the limit is an error, otherwise REPEAT and SKIP record a skip
  else if inv.raw == .ret .rep then (if isLast then .error else .skip)
  else if inv.raw == .ret .skip then .skip
  -- from here on the diagnosers run: one that raises is an error
  else if diagRaises then .error
  else if inv.raw == .ret .failCont || inv.raw == .ret .failSub then .fail
  else if !measurementsPass cfg inv.meas then (if o.stopOnMeasFail then .error else .fail)
  else if failDiag then .fail
  else .pass

/-- C05: how many diagnosers run for an invocation: all of them, unless the result is SKIP/REPEAT -/
def diagnosersRun (inSub : Bool) (inv : Inv) : Nat :=
  let r := finalizeMeasurements (threadResult inSub inv.raw) inv.meas
  if r == .pr .rep || r == .pr .skip then 0 else inv.diags.length

end OpenHTF.Exec.Spec

namespace OpenHTF.Exec.Spec

/-! ### C02: docs/event_sequence.md read by *mode* (see DESIGN.md Appendix B)

`run`  — normal execution;  `skip` — the enclosing subtest has failed (and we are not in a teardown);
`td`   — inside the teardown sequence of an entered group: overrides skipping, every node is run. -/

inductive Mode | run | skip | td
deriving DecidableEq, Repr

/-- the mode that applies to the next node -/
def eff (m : Mode) (sub : Option Nat) (st : St) : Mode :=
  match m with
  | .td => .td
  | _ => if sub.isSome && st.subFail then .skip else .run

mutual
/-- "The rest of the phases in a subtest after the failing node": phase descriptors are all skipped
    (one SKIP record each, nothing evaluated, nothing run), checkpoints are recorded as skipped,
    branches are not run at all, groups are entirely skipped including their teardown, nested
    sequences/subtests recursively (a nested subtest is recorded as FAIL). -/
def skipNode : Node → Option Nat → St → St
  | .phase p, sub, st => skipPhase p sub st
  | .checkpoint c, sub, st => { st with checkpoints := st.checkpoints ++ [(c.id, sub, .pr .skip)] }
  | .seq ns, sub, st => skipList ns sub st
  | .subtest name ns, _, st =>
    let st' := skipList ns (some name) st
    { st' with subtests := st'.subtests ++ [(name, .fail)] }
  | .branch _ _ _, _, st => st
  | .group s m t, sub, st => skipList t sub (skipList m sub (skipList s sub st))
def skipList : List Node → Option Nat → St → St
  | [], _, st => st
  | n :: ns, sub, st => skipList ns sub (skipNode n sub st)
end

/- A phase / checkpoint that is not skipped behaves as C05 describes: `Exec.runPhase`
   (invocation loop, stop_on_first_failure, "terminal results initiate a short-circuit", FAIL_SUBTEST
   marks the subtest) and `Exec.evalCheckpoint` (evaluated once, recorded once, acts as a failed
   phase if triggered). C02 is about the traversal around them. -/

mutual
def node (cfg : Cfg) : Node → Mode → Option Nat → St → St × Ret
  | .phase p, m, sub, st =>
    if eff m sub st = .skip then (skipNode (.phase p) sub st, .cont) else runPhase cfg p sub st
  | .checkpoint c, m, sub, st =>
    if eff m sub st = .skip then (skipNode (.checkpoint c) sub st, .cont) else evalCheckpoint c sub st
  | .seq ns, m, sub, st =>
    if eff m sub st = .skip then (skipList ns sub st, .cont) else seq cfg ns m sub st
  | .branch id c ns, m, sub, st =>
    if eff m sub st = .skip then (st, .cont)                                   -- "not run at all"
    else if condCheck c st.store then
      let r := seq cfg ns m sub st
      ({ r.1 with branches := r.1.branches ++ [(id, true)] }, r.2)
    else ({ st with branches := st.branches ++ [(id, false)] }, .cont)
  | .subtest name ns, m, sub, st =>
    if eff m sub st = .skip then (skipNode (.subtest name ns) sub st, .cont)
    else
      -- a fresh subtest record (FAIL from the start only in a teardown of an already failed subtest)
      let st0 := { st with subFail := sub.isSome && st.subFail }
      let r := seq cfg ns m (some name) st0
      let so : SO := if r.2 == .term then .stop else if r.1.subFail then .fail else .pass
      -- FAIL_SUBTEST never escapes: the outer subtest's state is restored
      ({ r.1 with subtests := r.1.subtests ++ [(name, so)], subFail := st.subFail }, r.2)
  | .group s mn t, m, sub, st =>
    if eff m sub st = .skip then (skipNode (.group s mn t) sub st, .cont)      -- "entirely skipped"
    else
      let r1 := seq cfg s m sub st
      if r1.2 != .cont then r1                                                  -- "we do not run the rest of the PhaseGroup"
      else if eff m sub r1.1 = .skip then
        -- failing node in setup: "record skips for the main and teardown sequences"
        (skipList t sub (skipList mn sub r1.1), .cont)
      else
        let r2 := seq cfg mn m sub r1.1
        let r3 := seq cfg t .td sub r2.1                                        -- "teardown phases are guaranteed to run"
        (r3.1, r2.2.max r3.2)
/-- a sequence: in a teardown every node runs whatever the earlier ones returned; otherwise the
    first terminal node stops the sequence -/
def seq (cfg : Cfg) : List Node → Mode → Option Nat → St → St × Ret
  | [], _, _, st => (st, .cont)
  | n :: ns, m, sub, st =>
    let r1 := node cfg n m sub st
    if m = .td then
      let r2 := seq cfg ns m sub r1.1
      (r2.1, r1.2.max r2.2)
    else if r1.2 != .cont then r1
    else seq cfg ns m sub r1.1
end

end OpenHTF.Exec.Spec
