import OpenHTF.Model.AdbMux
import OpenHTF.Driver.Util
/- C14 driver.
   `C14 <nstreams> <maxdata> D <dact>* W <wtok>* # (<got hex|-> <want hex|-> <done 0|1> <acks>){nstreams} H <hostwrite>* X <fact>*`
     dact  := ro:<r>:<cmd>:<hex|->        reader of stream r took a message addressed to r off the transport
            | rx:<r>:<d>:<cmd>:<hex|->    ... addressed to stream d
            | dq:<r>                      read_for_stream(r) returned the head of r's queue
            | ha:<r>                      _handle_message appended the WRTE in hand to r's buffer
            | ar:<r>:<n>                  the application read returned n bytes (requested: everything available)
     wtok  := <stream>/<ca|cr|ra|rf|rr|cw|nt>:<thread> | <stream>/ck:<thread>:<0|1>
     hostwrite := hw:<sid>:<data hex>:<chunk hex>,<chunk hex>,...
   streams are numbered 0.. in the order they were opened; cmd ∈ {K (OKAY), W (WRTE), Z (CLSE)} -/
namespace OpenHTF.Driver.C14
open OpenHTF.Driver OpenHTF.AdbMux

def cmdOf (s : String) : Option Cmd :=
  if s == "K" then some .okay else if s == "W" then some .wrte else if s == "Z" then some .clse else none

def bytesOf (s : String) : Option (List Nat) := if s == "-" then some [] else unhex s

def parseD (t : String) : Option Act :=
  match t.splitOn ":" with
  | ["ro", r, c, h] => match r.toNat?, cmdOf c, bytesOf h with
    | some r, some c, some d => some (.readOwn r { cmd := c, sid := r, data := d })
    | _, _, _ => none
  | ["rx", r, d, c, h] => match r.toNat?, d.toNat?, cmdOf c, bytesOf h with
    | some r, some dd, some c, some d => some (.readOther r dd { cmd := c, sid := dd, data := d })
    | _, _, _, _ => none
  | ["dq", r] => r.toNat?.map .dequeue
  | ["ha", r] => r.toNat?.map .handleMsg
  | ["ar", r, n] => match r.toNat?, n.toNat? with
    | some r, some _ => some (.appRead r 0)
    | _, _ => none
  | ["al", r, n] => match r.toNat?, n.toNat? with
    | some r, some n => if n = 0 then none else some (.appRead r n)
    | _, _ => none
  | _ => none

def replayD (s : S) (k : Nat) : Toks → Except (Nat × String) S
  | [] => .ok s
  | t :: rest => match parseD t with
    | none => .error (k, "parse:" ++ t)
    | some a => match step s a with
      | some s' =>
        -- a message without payload (OKAY, CLSE) is handled without a visible buffer action: do it at once
        let s' := match a with
          | .readOwn r m => if m.cmd != .wrte then (step s' (.handleMsg r)).getD s' else s'
          | .dequeue r => (match (s'.strs r).inHand with
            | [m] => if m.cmd != .wrte then (step s' (.handleMsg r)).getD s' else s'
            | _ => s')
          | _ => s'
        -- an application read must return exactly the buffered bytes
        let okLen := match t.splitOn ":" with
          | ["ar", r, n] => (match r.toNat?, n.toNat? with
            | some r, some n => ((s.strs r).buffer.length == n)
            | _, _ => true)
          | _ => true
        if okLen then replayD s' (k + 1) rest else .error (k, "read-length:" ++ t)
      | none => .error (k, t)

/-- wake-up tokens of one stream -> model actions, decided with the model's own pc of the thread -/
def replayW (s : WkS) (k : Nat) : Toks → Except (Nat × String) WkS
  | [] => .ok s
  | t :: rest =>
    let parts := t.splitOn ":"
    let op := parts.getD 0 ""
    let th := (parts.getD 1 "").toNat?.getD 999
    let go (a : WkAct) : Except (Nat × String) WkS :=
      match wkStep s a with
      | some s' => replayW s' (k + 1) rest
      | none => .error (k, t)
    let pc := s.pcs th
    if op == "ca" then
      (if pc = 0 then go (.condAcq th) else if pc = 4 then go (.notifyAcq th) else if pc = 9 then
        (match wkStep { s with pcs := updN s.pcs th 0 } (.condAcq th) with
         | some s' => replayW s' (k + 1) rest
         | none => .error (k, t))
       else .error (k, t))
    else if op == "ra" then go (.becomeReader th)
    else if op == "rf" then go (.tryFail th)
    else if op == "cw" then go (.wait th)
    else if op == "rr" then go (.readerDone th)
    else if op == "nt" then go (.notify th)
    else if op == "ck" then
      (let ok := parts.getD 2 "1" == "1"
       let s1 : Option WkS := if pc = 6 then (if ok then none else wkStep s (.timeout th)) else some s
       match s1 with
       | none => .error (k, t ++ ":woken-without-notification")
       | some s1 => match wkStep s1 (.reacquire th) with
         | some s' => replayW s' (k + 1) rest
         | none => .error (k, t))
    else if op == "cr" then
      (if pc = 8 then go (.wakeRelease th)
       else if s.condHeld == some th then .error (k, t) else replayW s (k + 1) rest)
    else .error (k, "parse:" ++ t)

def sectionOf (mark : String) (stops : List String) (ts : Toks) : Toks :=
  ((ts.dropWhile (· != mark)).drop 1).takeWhile (fun t => !stops.contains t)

def handle (ts : Toks) : String :=
  match ts with
  | nT :: mdT :: rest =>
    match nT.toNat?, mdT.toNat? with
    | some n, some maxdata =>
      let marks := ["D", "W", "#", "H", "X"]
      let dT := sectionOf "D" marks rest
      let wT := sectionOf "W" marks rest
      let obs := sectionOf "#" marks rest
      let hT := sectionOf "H" marks rest
      let facts := (sectionOf "X" marks rest).map (fun e => if e.startsWith "X:" then (e.drop 2).toString else e)
      let idx := List.range n
      let got (i : Nat) : List Nat := (bytesOf (obs.getD (4 * i) "-")).getD []
      let want (i : Nat) : List Nat := (bytesOf (obs.getD (4 * i + 1) "-")).getD []
      let done (i : Nat) : Bool := obs.getD (4 * i + 2) "0" == "1"
      let acks (i : Nat) : Nat := (obs.getD (4 * i + 3) "0").toNat?.getD 0
      -- spec on the real observation
      let consumedW (i : Nat) : Nat := (dT.filter (fun t =>
        (t.startsWith ("ro:" ++ toString i ++ ":W:")) || ((t.splitOn ":").getD 0 "" == "rx" && (t.splitOn ":").getD 2 "" == toString i && (t.splitOn ":").getD 3 "" == "W"))).length
      let hostFails := hT.filterMap (fun t => match t.splitOn ":" with
        | ["hw", sid, dh, ch] =>
          let data := (bytesOf dh).getD []
          let cs := ((ch.splitOn ",").filter (· != "")).map (fun c => (bytesOf c).getD [])
          if cs.flatten != data then some ("write-chunks-do-not-concatenate-to-the-data:" ++ sid)
          else if cs.any (fun c => decide (c.length > maxdata) || c.isEmpty) then some ("write-chunk-larger-than-maxdata-or-empty:" ++ sid)
          else if cs != chunks maxdata data then some ("write-chunks-differ-from-model:" ++ sid)
          else none
        | _ => some "parse-error-hostwrite")
      let fails : List String :=
        (idx.filter (fun i => !(got i).isPrefixOf (want i))).map (fun i => "stream-got-bytes-that-are-not-a-prefix-of-what-the-device-wrote:" ++ toString i) ++
        (idx.filter (fun i => done i && got i != want i)).map (fun i => "stream-reader-finished-without-all-bytes:" ++ toString i) ++
        (idx.filter (fun i => acks i != consumedW i)).map (fun i => "acknowledgements-differ-from-WRTEs-consumed:" ++ toString i) ++
        hostFails ++ facts
      -- model
      let dres := replayD {} 0 dT
      let wres : List String := idx.filterMap (fun i =>
        let toks := (wT.filter (·.startsWith (toString i ++ "/"))).map (fun t => (t.drop ((toString i).length + 1)).toString)
        match replayW {} 0 toks with
        | .ok _ => none
        | .error (k, t) => some ("wake-model-rejects:" ++ toString i ++ ":" ++ toString k ++ ":" ++ t))
      match dres with
      | .error (k, t) =>
        reply false fails.isEmpty (",".intercalate (fails ++ ["mux-model-rejects-action-" ++ toString k ++ ":" ++ t] ++ wres))
      | .ok s =>
        let dataOk := idx.all (fun i => (s.strs i).delivered == got i && (s.strs i).acks == acks i)
        let agree := dataOk && wres.isEmpty
        reply agree fails.isEmpty
          (if fails.isEmpty && agree then "ok" else ",".intercalate (fails ++ (if dataOk then [] else ["mux-model-differs"]) ++ wres))
    | _, _ => reply false false "parse-error"
  | _ => reply false false "parse-error"

end OpenHTF.Driver.C14
