/- Token-level helpers for the line protocol (driver only; nothing here is used by a theorem). -/
namespace OpenHTF.Driver

abbrev Toks := List String

/-- parser over a token list -/
abbrev P (α : Type) := Toks → Option (α × Toks)

def tok : P String
  | [] => none
  | t :: ts => some (t, ts)

def nat : P Nat
  | [] => none
  | t :: ts => t.toNat?.map (·, ts)

def int : P Int
  | [] => none
  | t :: ts => t.toInt?.map (·, ts)

def bool : P Bool
  | "1" :: ts => some (true, ts)
  | "0" :: ts => some (false, ts)
  | _ => none

/-- `-` = none, else a natural -/
def optNat : P (Option Nat)
  | "-" :: ts => some (none, ts)
  | t :: ts => t.toNat?.map (fun n => (some n, ts))
  | [] => none

def expect (s : String) : P Unit
  | t :: ts => if t = s then some ((), ts) else none
  | [] => none

partial def many {α} (n : Nat) (p : P α) : P (List α) := fun ts =>
  match n with
  | 0 => some ([], ts)
  | n+1 => match p ts with
    | none => none
    | some (a, ts) => match many n p ts with
      | none => none
      | some (as, ts) => some (a :: as, ts)

/-- length-prefixed list -/
def listOf {α} (p : P α) : P (List α) := fun ts =>
  match nat ts with
  | none => none
  | some (n, ts) => many n p ts

def pair {α β} (p : P α) (q : P β) : P (α × β) := fun ts =>
  match p ts with
  | none => none
  | some (a, ts) => match q ts with
    | none => none
    | some (b, ts) => some ((a, b), ts)

def splitAt (sep : String) (ts : Toks) : Toks × Toks :=
  let a := ts.takeWhile (· ≠ sep)
  (a, (ts.dropWhile (· ≠ sep)).drop 1)

def b01 (b : Bool) : String := if b then "1" else "0"

/-- standard reply: `<agree> <holds> <message>` -/
def reply (agree holds : Bool) (msg : String) : String :=
  b01 agree ++ " " ++ b01 holds ++ " " ++ msg

def words (line : String) : Toks := (line.splitOn " ").filter (· ≠ "")

def hexVal (c : Char) : Option Nat :=
  if '0' ≤ c ∧ c ≤ '9' then some (c.toNat - 48)
  else if 'a' ≤ c ∧ c ≤ 'f' then some (c.toNat - 87)
  else none

/-- hex string -> list of byte values -/
def unhex (s : String) : Option (List Nat) :=
  let rec go : List Char → Option (List Nat)
    | [] => some []
    | [_] => none
    | a :: b :: rest => match hexVal a, hexVal b, go rest with
      | some x, some y, some r => some ((x * 16 + y) :: r)
      | _, _, _ => none
  go s.toList

def hexChar (d : Nat) : Char := Char.ofNat (if d < 10 then 48 + d else 87 + d)
def hex (l : List Nat) : String := String.ofList (l.flatMap (fun b => [hexChar (b / 16 % 16), hexChar (b % 16)]))

def hexTok : P (List Nat)
  | [] => none
  | t :: ts => (unhex (if t == "-" then "" else t)).map (·, ts)

end OpenHTF.Driver
