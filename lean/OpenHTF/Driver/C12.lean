import OpenHTF.Model.Kill
import OpenHTF.Driver.Util
import OpenHTF.Driver.C02
/- C12 driver.
   `C12 K <act>* # <bodyRan> <raisedInBody> <raisedInHandlers> <finished> <extra>*`
       act := st | ta | tc | tb | te | th | tf | td | ks:k | ka:k | kt:k | kc:k | kr:k
       extra := X:<fact about the real run detected by the harness>
   `C12 J <timeout|-> <interval> <d|inf> <h> # <own|timeout> <t_return>`          (units: 1/16 s of virtual time)
   `C12 G <test> # <real tokens>`   executor model on a program with timed-out phases (same as C03's line) -/
namespace OpenHTF.Driver.C12
open OpenHTF.Driver OpenHTF.Kill

def parseAct (t : String) : Option Act :=
  match t.splitOn ":" with
  | ["st"] => some .start | ["ta"] => some .tAcq | ["tc"] => some .tCheck | ["tb"] => some .tBody
  | ["te"] => some .tBodyEnd | ["th"] => some .tHandler | ["tf"] => some .tFinish | ["td"] => some .tDeliver
  | ["ks", k] => k.toNat?.map .kSet
  | ["ka", k] => k.toNat?.map .kAlive
  | ["kt", k] => k.toNat?.map .kTry
  | ["kc", k] => k.toNat?.map .kRaiseCheck
  | ["kr", k] => k.toNat?.map .kRaise
  | _ => none

def isKSet : Act → Bool | .kSet _ => true | _ => false
def bodyOver : Act → Bool | .tBodyEnd => true | .tDeliver => true | _ => false

def handleK (ts : Toks) : String :=
  let (actsT, real) := splitAt "#" ts
  match actsT.mapM parseAct, real with
  | some acts, br :: rb :: rh :: fin :: extras =>
    let realBodyRan := br == "1"
    let realRB := rb == "1"
    let realRH := rh == "1"
    -- spec on the real observation
    let killBeforeStart := (acts.takeWhile (· != .start)).any isKSet
    -- every kill requested after the body was over (or after a check that found the flag set)?
    let firstKill := acts.dropWhile (fun a => !isKSet a)
    let prefixBeforeFirstKill := acts.takeWhile (fun a => !isKSet a)
    let allKillsAfterBody := !firstKill.isEmpty && prefixBeforeFirstKill.any bodyOver
    let fails : List String :=
      (if killBeforeStart && realBodyRan then ["body-ran-although-killed-before-start"] else []) ++
      (if allKillsAfterBody && (realRB || realRH) then ["kill-after-body-returned-raised-in-thread"] else []) ++
      (extras.filter (·.startsWith "X:")).map (fun e => "real-run:" ++ (e.drop 2).toString)
    match replay {} 0 acts with
    | .error k =>
      reply false fails.isEmpty (",".intercalate (fails ++ ["model-rejects-action-" ++ toString k ++ ":" ++ (actsT.getD k "?")]))
    | .ok s =>
      let agree := s.t.bodyRan == realBodyRan && s.t.raisedInBody == realRB && s.t.raisedInHandlers == realRH &&
                   (decide (s.t.pc = 5) == (fin == "1"))
      reply agree fails.isEmpty
        (if fails.isEmpty then (if agree then "ok" else
          "model-differs:bodyRan=" ++ b01 s.t.bodyRan ++ ",inBody=" ++ b01 s.t.raisedInBody ++ ",inHandlers=" ++
            b01 s.t.raisedInHandlers ++ ",pc=" ++ toString s.t.pc)
         else ",".intercalate fails)
  | _, _ => reply false false "parse-error"

def showJ : JoinResult → String | .own => "own" | .timeout => "timeout"

def handleJ (ts : Toks) : String :=
  match ts with
  | [toT, ivT, dT, hT, "#", resT, tT] =>
    let timeoutOpt : Option Nat := toT.toNat?
    match ivT.toNat?, tT.toNat?, hT.toNat? with
    | some iv, some tReal, some hh =>
      let d : Option Nat := dT.toNat?
      let mtimeout := effectiveTimeoutS timeoutOpt * (if timeoutOpt.isNone then 16 else 1)
      let m0 := joinOrDie mtimeout iv d hh false
      let m1 := joinOrDie mtimeout iv d hh true
      let agree := (showJ m0.1 == resT && m0.2 == tReal) || (showJ m1.1 == resT && m1.2 == tReal)
      -- the spec uses the documented default (180 s), not the regenerated constant
      let timeout := match timeoutOpt with | some t => t | none => 180 * 16
      -- spec on the real observation
      let fails : List String :=
        (if resT != "own" && resT != "timeout" then ["executor-did-not-proceed:" ++ resT] else []) ++
        (match d with
         | some dv => if decide (dv < timeout) && resT != "own" then ["body-returned-before-deadline-reported-as-timeout"]
                      else if decide (timeout < dv) && resT == "own" then ["body-still-running-at-its-deadline-not-reported-as-timeout"] else []
         | none => if resT != "timeout" then ["hung-body-not-reported-as-timeout"] else []) ++
        (if decide (tReal < timeout + iv) || decide (tReal ≤ (d.getD 0) + hh) then [] else ["executor-proceeded-later-than-deadline-plus-poll-interval"]) ++
        (match d with
         | some dv => if resT == "timeout" && decide (dv < timeout) then [] else
                      if resT == "timeout" && decide (tReal < timeout) then ["timeout-reported-before-the-deadline"] else []
         | none => if decide (tReal < timeout) then ["timeout-reported-before-the-deadline"] else [])
      reply agree fails.isEmpty
        (if fails.isEmpty then (if agree then "ok" else "model=" ++ showJ m0.1 ++ "@" ++ toString m0.2 ++ "|" ++ showJ m1.1 ++ "@" ++ toString m1.2)
         else ",".intercalate fails)
    | _, _, _ => reply false false "parse-error"
  | _ => reply false false "parse-error"

def handle (ts : Toks) : String :=
  match ts with
  | "K" :: rest => handleK rest
  | "J" :: rest => handleJ rest
  | "G" :: rest => C02.handleC03 rest
  | "A" :: rest =>
    -- abandoned body: the harness reports facts; the spec is their conjunction
    let bad := rest.filter (·.startsWith "X:")
    reply true bad.isEmpty (if bad.isEmpty then "ok" else ",".intercalate (bad.map (fun e => (e.drop 2).toString)))
  | _ => reply false false "parse-error"

end OpenHTF.Driver.C12
