import OpenHTF.Spec.Exec
import OpenHTF.Driver.Exec
/- C02 / C03 drivers: `C02 <test> # <real obs>`. The reference is the mode reading of the document
   (`Spec.seq`), evaluated independently of the executor model. -/
namespace OpenHTF.Driver.C02
open OpenHTF.Driver OpenHTF.Exec OpenHTF.Driver.ExecIO

/-- the run as the document prescribes it -/
def specRun (cfg : Cfg) (t : Test) : St :=
  let afterStart : St × Bool :=
    match t.testStart with
    | none => ({}, false)
    | some p =>
      let r := executePhase cfg p none {}
      if r.2.isTerminal then (setLast r.1 r.2, true) else (r.1, false)
  if afterStart.2 then afterStart.1
  else runTestDiagnosers (Spec.seq cfg t.nodes .run none afterStart.1).1 t.testDiags

def kindOf (t : String) : String := (t.take 1).toString

/-- which record lists / call log differ -/
def diffs (spec real : Toks) : List String :=
  [("p", "phase-records"), ("u", "subtest-records"), ("B", "branch-records"), ("c", "checkpoint-records"),
   ("e", "call-log")].filterMap (fun (k, name) =>
    if spec.filter (fun t => kindOf t == k) == real.filter (fun t => kindOf t == k) then none else some name)

def handle (ts : Toks) : String :=
  let (inp, real) := splitAt "#" ts
  match test inp with
  | some ((cfg, t), []) =>
    let st := runTest cfg t
    let model := showRun st (finalize st)
    let sp := specRun cfg t
    let spec := showRun sp (finalize sp)
    let agree := model == real
    let fails := diffs spec real
    reply agree fails.isEmpty
      (if fails.isEmpty then (if agree then "ok" else "diff " ++ firstDiff model real)
       else ",".intercalate fails ++ " " ++ firstDiff spec real)
  | _ => reply false false "parse-error"

/-- C03: the bodies that ran, in order (call log restricted to bodies), and the phase records -/
def handleC03 (ts : Toks) : String :=
  let (inp, real) := splitAt "#" ts
  match test inp with
  | some ((cfg, t), []) =>
    let st := runTest cfg t
    let model := showRun st (finalize st)
    let sp := specRun cfg t
    let spec := showRun sp (finalize sp)
    let agree := model == real
    let bodies (l : Toks) := l.filter (·.startsWith "eb")
    let recs (l : Toks) := (l.filter (fun t => kindOf t == "p")).map (fun t => (t.splitOn ":").headD "")
    let fails := (if bodies spec == bodies real then [] else ["teardown-or-body-order"]) ++
                 (if recs spec == recs real then [] else ["phase-record-sequence"])
    reply agree fails.isEmpty
      (if fails.isEmpty then (if agree then "ok" else "diff " ++ firstDiff model real)
       else ",".intercalate fails ++ " " ++ firstDiff spec real)
  | _ => reply false false "parse-error"

end OpenHTF.Driver.C02
