import OpenHTF.Model.Validators
import OpenHTF.Driver.Util
/- C07 driver. Numbers arrive as integers (the harness scales each case by a common denominator).
   `C07 IR <min> <max> <mmin> <mmax> <v> # <ctor> [<acc> <marg> <copies>]`
   `C07 AR <min> <max> <mmin> <mmax> <n> <v>... # <ctor> [<acc>]`
   `C07 WP <e> <p> <mp|-> <min> <max> <tol> <v> # <ctor> [<acc> <marg>]`
   `C07 EQS <lithex|-> <vhex|-> # <acc>` ; `C07 AES <lithex|-> <n> <vhex|->.. # <acc>` ; `C07 RX <lithex|-> <vhex|-> # <acc>` ; `C07 PV <n> <0|1>... # <pivot> <consistentEnd>` -/
namespace OpenHTF.Driver.C07
open OpenHTF.Driver OpenHTF.Validators

def val (t : String) : Option V :=
  match t with
  | "N" => some .none | "nan" => some .nan | "+inf" => some .posInf | "-inf" => some .negInf | "str" => some .str
  | _ => t.toInt?.map .fin

def lim (t : String) : Option Lim :=
  if t == "-" then some .none
  else if t.startsWith "n:" then (val (t.drop 2).toString).map .num
  else if t.startsWith "s:" then (val (t.drop 2).toString).map .conv
  else none

def showR : R → String | .accept => "1" | .reject => "0" | .raises => "raise"
/-- real tokens `raise:<Exc>` are compared by kind only -/
def norm (t : String) : String := if t.startsWith "raise" then "raise" else t

def range (a b c d : String) : Option Range :=
  match lim a, lim b, lim c, lim d with
  | some a, some b, some c, some d => some ⟨a, b, c, d⟩
  | _, _, _, _ => none

def inconsistent (r : Range) : Bool :=
  let gt (a b : Lim) := a.isNumber && b.isNumber && !(a.val.leq b.val)
  (r.min.isNone && r.max.isNone) || gt r.min r.max || (!r.mmin.isNone && r.min.isNone) ||
  (!r.mmax.isNone && r.max.isNone) || gt r.min r.mmin || gt r.mmax r.max || gt r.mmin r.mmax

def result (agree : Bool) (fails : List String) (model : String) : String :=
  reply agree fails.isEmpty (if fails.isEmpty then (if agree then "ok" else "model=" ++ model) else ",".intercalate fails ++ " model=" ++ model)

def handle (ts : Toks) : String :=
  let (inp, real) := splitAt "#" ts
  let real := real.map norm
  match inp with
  | ["IR", a, b, c, d, v] =>
    match range a b c d, val v with
    | some r, some v =>
      let rej := ctorRejects r
      let model := if rej then ["err"] else ["ok", showR (inRange r v), showR (inRangeMarginal r v), "1"]
      let fails : List String :=
        match real with
        | ["err"] => if inconsistent r then [] else ["ctor-rejects-consistent-limits"]
        | ["ok", acc, marg, copies] =>
          (if inconsistent r then ["ctor-accepts-inconsistent-limits"] else []) ++
          -- accepted exactly when inside: an inside value must be accepted, an outside one must not be
          -- (returning False or raising are both "not accepted")
          (if v.numeric then
             (if Spec.inside r v then (if acc == "1" then [] else ["value-inside-limits-not-accepted"])
              else (if acc == "1" then ["value-outside-limits-accepted"] else []))
           else (if acc == "1" then ["non-number-passes"] else [])) ++
          (if acc == "1" && Spec.inside r v && !inconsistent r then
             (if marg == b01 (Spec.inBand r v) then [] else ["marginal-iff-in-band"]) else []) ++
          (if copies == "1" then [] else ["copies-decide-differently"])
        | _ => ["malformed-observation"]
      result (model == real) fails (" ".intercalate model)
    | _, _ => reply false false "parse-error"
  | "AR" :: a :: b :: c :: d :: rest =>
    match range a b c d, listOf (fun ts => match ts with | t :: ts => (val t).map (·, ts) | [] => none) rest with
    | some r, some (vs, []) =>
      let rej := ctorRejects r
      let model := if rej then ["err"] else ["ok", showR (allInRange r vs)]
      let numericOrNan := vs.all (fun v => v.numeric || v == .nan)
      let fails : List String :=
        match real with
        | ["err"] => if inconsistent r then [] else ["ctor-rejects-consistent-limits"]
        | ["ok", acc] =>
          (if inconsistent r then ["ctor-accepts-inconsistent-limits"] else []) ++
          (if numericOrNan then (if acc == b01 (vs.all (Spec.inside r)) then [] else ["all-accept-iff-all-inside"])
           else (if acc == "1" && !(vs.all (Spec.inside r)) then ["non-number-passes"] else []))
        | _ => ["malformed-observation"]
      result (model == real) fails (" ".intercalate model)
    | _, _ => reply false false "parse-error"
  | ["WP", e, p, mp, mn, mx, tol, v] =>
    match e.toInt?, p.toInt?, (if mp == "-" then some none else mp.toInt?.map some), val mn, val mx, tol.toInt?, val v with
    | some e, some p, some mp, some mn, some mx, some tol, some v =>
      let c : Pct := ⟨e, p, mp⟩
      let rej := pctRejects c
      let marg : String := match v with
        | .fin z => b01 (pctMarginal c z)
        | _ => "?"
      let model := if rej then ["err"] else ["ok", showR (pctCall mn mx v), marg]
      -- exact bounds e ± |e·p|/100, compared after multiplying by 100
      let exLo : Int := 100 * e - (e * p).natAbs
      let exHi : Int := 100 * e + (e * p).natAbs
      let boundsOk := match mn, mx with
        | .fin a, .fin b => (100 * a - exLo).natAbs ≤ 100 * tol.natAbs && (100 * b - exHi).natAbs ≤ 100 * tol.natAbs
        | _, _ => false
      let fails : List String :=
        match real with
        | ["err"] => if rej then [] else ["ctor-rejects-consistent-percent"]
        | ["ok", acc, rm] =>
          (if rej then ["ctor-accepts-inconsistent-percent"] else []) ++
          (if boundsOk then [] else ["reported-bounds-not-e±|e·p|/100"]) ++
          (match v with
           | .fin z =>
             -- away from the (rounded) boundaries the exact formula decides
             let far := (100 * z - exLo).natAbs > 100 * tol.natAbs && (100 * z - exHi).natAbs > 100 * tol.natAbs
             (if far && acc != b01 (pctAccept c z) then ["accept-iff-within-percent"] else []) ++
             (if rm == "1" && acc != "1" then ["marginal-outside-tolerance"] else []) ++
             (if rm == "raise" then ["is-marginal-raises-on-a-number"] else []) ++
             (let mfar := match mp with
                | some m => (100 * (z - e)).natAbs + 100 * tol.natAbs < (e * m).natAbs || (100 * (z - e)).natAbs > (e * m).natAbs + 100 * tol.natAbs
                | none => true
              if far && mfar && rm != b01 (pctMarginal c z) then ["marginal-iff-in-percent-band"] else [])
           | .nan => if acc == "1" then ["nan-passes"] else []
           | .none => if acc == "1" then ["none-passes"] else []
           | _ => [])
        | _ => ["malformed-observation"]
      let agree := match real, model with
        | ["ok", acc, rm], ["ok", macc, mm] => acc == macc && (mm == "?" || (rm == "raise") == (mm == "raise"))
        | r, m => r == m
      result agree fails (" ".intercalate model)
    | _, _, _, _, _, _, _ => reply false false "parse-error"
  | ["EQS", l, v] =>
    match unhex (if l == "-" then "" else l), unhex (if v == "-" then "" else v) with
    | some l, some v =>
      let m := b01 (equalsStr l v)
      result (real == [m]) (if real == [m] then [] else ["equals-literal-string"]) m
    | _, _ => reply false false "parse-error"
  | "AES" :: l :: _n :: vs =>
    match unhex (if l == "-" then "" else l), vs.mapM (fun v => unhex (if v == "-" then "" else v)) with
    | some l, some vs =>
      let m := b01 (allEqualsStr l vs)
      result (real == [m]) (if real == [m] then [] else ["all-equals-literal-string"]) m
    | _, _ => reply false false "parse-error"
  | ["RX", l, v] =>
    match unhex (if l == "-" then "" else l), unhex (if v == "-" then "" else v) with
    | some l, some v =>
      let m := b01 (matchesLiteralPrefix l v)
      result (real == [m]) (if real == [m] then [] else ["regex-matched-from-start"]) m
    | _, _ => reply false false "parse-error"
  | "PV" :: rest =>
    match listOf bool rest with
    | some (bs, []) =>
      let m := [b01 (pivot bs), b01 (consistentEnd bs)]
      result (real == m) (if real == m then [] else ["dimension-pivot"]) (" ".intercalate m)
    | _ => reply false false "parse-error"
  | _ => reply false false "parse-error"

end OpenHTF.Driver.C07
