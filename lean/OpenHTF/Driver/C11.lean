import OpenHTF.Model.Heap
import OpenHTF.Driver.Util
/- C11 driver.
   `C11 D <copy|withArgs|withPlugsMatch|withPlugsNone> # <root> <options> <plugs> <measurements> <diagnosers> <kwargs> <meas0> <plug0>`
       which parts of a derived phase are THE SAME OBJECT as the corresponding part of the phase it was derived from
       (1 = shared). The model derives a canonical phase on its heap and reports the same sharing facts.
   `C11 S <fact>*`   snapshot / record facts established by the harness on a history (X:… = a violation) -/
namespace OpenHTF.Driver.C11
open OpenHTF.Driver OpenHTF.Heap

/-- the canonical phase: 0 func, 1 options, 2 plug, 3 plugs[], 4 validators[], 5 measurement, 6 measurements[],
    7 diagnoser, 8 diagnosers[], 9 extra_kwargs{}, 10 code_info, 11 the phase descriptor -/
def canon : Heap := ⟨[
  { attrs := false, immutable := true, fields := [] },
  { attrs := true, fields := [.atom 1, .atom 2] },
  { attrs := true, fields := [.atom 3] },
  { attrs := false, fields := [.ref 2] },
  { attrs := false, fields := [.atom 4] },
  { attrs := true, fields := [.atom 5, .ref 4] },
  { attrs := false, fields := [.ref 5] },
  { attrs := false, fields := [.atom 6] },
  { attrs := false, fields := [.ref 7] },
  { attrs := false, fields := [.atom 7] },
  { attrs := true, fields := [.atom 8] },
  { attrs := true, fields := [.ref 0, .ref 1, .ref 3, .ref 6, .ref 8, .ref 9, .ref 10] }]⟩

def fieldRef (h : Heap) (a i : Nat) : Option Nat :=
  match h.get a with
  | some o => match o.fields[i]? with
    | some (.ref b) => some b
    | _ => none
  | none => none

def sharing (h : Heap) (p q : Nat) : List Bool :=
  let same (i : Nat) : Bool := fieldRef h p i == fieldRef h q i
  let elem0 (i : Nat) : Bool :=
    match fieldRef h p i, fieldRef h q i with
    | some a, some b => fieldRef h a 0 == fieldRef h b 0
    | _, _ => false
  [p == q, same 1, same 2, same 3, same 4, same 5, elem0 3, elem0 2]

def opOf (s : String) : Option Derive :=
  if s == "copy" then some .copy else if s == "withArgs" then some .withArgs
  else if s == "withPlugsMatch" then some .withPlugsMatch else if s == "withPlugsNone" then some .withPlugsNone else none

def handle (ts : Toks) : String :=
  match ts with
  | "D" :: opT :: "#" :: flags =>
    match opOf opT with
    | none => reply false false "parse-error"
    | some op =>
      let r := derive 8 canon 11 op
      let model := (sharing r.1 11 r.2).map b01
      let names := ["phase", "options", "plugs-list", "measurements-list", "diagnosers-list", "extra_kwargs", "measurement-object", "plug-object"]
      -- spec: the derived phase and the containers it owns directly are new objects
      let shared := (List.range 6).filter (fun i => flags.getD i "0" == "1")
      let fails := shared.map (fun i => "derived-phase-shares-its-" ++ names.getD i "?" ++ "-with-the-original")
      reply (model == flags) fails.isEmpty
        (if fails.isEmpty && model == flags then "ok" else ",".intercalate (fails ++ (if model == flags then [] else ["model=" ++ " ".intercalate model])))
  | "S" :: facts =>
    let bad := (facts.filter (·.startsWith "X:")).map (fun e => (e.drop 2).toString)
    reply true bad.isEmpty (if bad.isEmpty then "ok" else ",".intercalate bad)
  | _ => reply false false "parse-error"

end OpenHTF.Driver.C11
