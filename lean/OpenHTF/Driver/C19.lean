import OpenHTF.Model.Logs
import OpenHTF.Driver.Util
/- C19 driver.
   `C19 H <op>* # (<uidhex> <id,id,..|->)* X <fact>*`   op := s:<uidhex> | l:<namehex>:<id> | f:<uidhex>
        history of handler add / log / handler remove (in the order they took effect) and, per run, the ids of the
        harness messages found in its log_records
   `C19 R <msghex|-> # <realhex|->`                        MAC redaction of one formatted message
   names / uids / messages are hex-encoded strings -/
namespace OpenHTF.Driver.C19
open OpenHTF.Driver OpenHTF.Logs

def chars (h : String) : Option (List Char) :=
  if h == "-" then some [] else (unhex h).map (fun l => l.map Char.ofNat)

def parseOp (t : String) : Option Op :=
  match t.splitOn ":" with
  | ["s", u] => (chars u).map .start
  | ["f", u] => (chars u).map .finish
  | ["l", n, i] => match chars n, i.toNat? with
    | some n, some i => some (.log n i)
    | _, _ => none
  | _ => none

def ids (s : String) : List Nat := if s == "-" then [] else (s.splitOn ",").filterMap (·.toNat?)

def pairs : Toks → List (List Char × List Nat)
  | u :: l :: rest => (match chars u with | some u => [(u, ids l)] | none => []) ++ pairs rest
  | _ => []

/-- is `a` a subsequence of `b` (order preserved) -/
def subseq : List Nat → List Nat → Bool
  | [], _ => true
  | _ :: _, [] => false
  | x :: xs, y :: ys => if x == y then subseq xs ys else subseq (x :: xs) ys

def handleH (ts : Toks) : String :=
  let (opsT, rest) := splitAt "#" ts
  let (obsT, factsT) := splitAt "X" rest
  match opsT.mapM parseOp with
  | none => reply false false "parse-error"
  | some ops =>
    let real := pairs obsT
    let s := run {} ops
    let model (u : List Char) : List Nat := (recordOf s u).map (·.msg)
    let agree := real.all (fun (u, l) => model u == l)
    -- spec evaluated on the real records, independently of the model: replay the history with the property's words
    let live (u : List Char) (k : Nat) : Bool :=
      let pre := ops.take k
      pre.contains (.start u) && !pre.contains (.finish u)
    let idx := List.range ops.length
    let fails : List String := real.flatMap (fun (u, l) =>
      let must : List Nat := idx.filterMap (fun k => match ops.getD k (.finish []) with
        | .log n i => if live u k && (recordUid n == none || recordUid n == some u) then some i else none
        | _ => none)
      let foreign : List Nat := idx.filterMap (fun k => match ops.getD k (.finish []) with
        | .log n i => if (recordUid n).isSome && recordUid n != some u then some i else none
        | _ => none)
      let late : List Nat := idx.filterMap (fun k => match ops.getD k (.finish []) with
        | .log _ i => if !live u k then some i else none
        | _ => none)
      (if must.all (fun i => (l.filter (· == i)).length == 1) then [] else ["message-not-recorded-exactly-once"]) ++
      (if l.any (fun i => foreign.contains i) then ["message-of-another-run-recorded"] else []) ++
      (if l.any (fun i => late.contains i && !must.contains i) then ["message-recorded-outside-the-run"] else []) ++
      (if subseq (l.filter must.contains) must && subseq must (l.filter must.contains) then [] else ["emission-order-not-preserved"])) ++
      (factsT.filter (·.startsWith "X:")).map (fun e => (e.drop 2).toString)
    reply agree fails.isEmpty (if fails.isEmpty && agree then "ok" else ",".intercalate (fails ++ (if agree then [] else ["model-differs"])))

/-- does a MAC address (in the sense of the model's matcher) remain anywhere in the text? -/
def hasMac : List Char → Bool
  | [] => false
  | c :: cs => (matchMac (c :: cs)).isSome || hasMac cs

def handleR (ts : Toks) : String :=
  match ts with
  | [m, "#", r] =>
    match chars m, chars r with
    | some msg, some real =>
      let model := redactMsg msg
      let fails := if hasMac real then ["mac-address-left-in-the-record"] else []
      reply (model == real) fails.isEmpty
        (if fails.isEmpty && model == real then "ok" else ",".intercalate (fails ++ (if model == real then [] else ["model=" ++ String.ofList model])))
    | _, _ => reply false false "parse-error"
  | _ => reply false false "parse-error"

def handle (ts : Toks) : String :=
  match ts with
  | "H" :: rest => handleH rest
  | "R" :: rest => handleR rest
  | _ => reply false false "parse-error"

end OpenHTF.Driver.C19
