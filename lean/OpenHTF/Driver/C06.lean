import OpenHTF.Model.Meas
import OpenHTF.Driver.Util
/- C06 driver.
   `C06 <K> <nstore> r.. <nm> decl.. <nops> op.. # real`
   decl := `<arity|-> <K transform entries idx|x> <nval> (<K verdict chars a|m|r|x>).. <ncond> (<result> <K verdict chars>)..`
   op   := `S i v` | `D i <n> c.. v` | `U` | `E` | `A r` (a diagnosis result appears mid-phase: must not matter)
   real := per op: `<res>/<m0>/<m1>/…` with m := `<stored|->,<entries c.c=v;…|->,<outcome>,<marginal 0|1>` -/
namespace OpenHTF.Driver.C06
open OpenHTF.Driver OpenHTF.Meas

def verdictOf : Char → Verdict
  | 'a' => .accept false | 'm' => .accept true | 'r' => .reject | _ => .raises

structure RawDecl where
  arity : Option Nat
  transform : List (Option Nat)
  validators : List (List Verdict)             -- per validator: verdict per pool value
  conds : List (Nat × List Verdict)

def decl (k : Nat) : P RawDecl := fun ts =>
  match optNat ts with
  | none => none
  | some (ar, ts) => match many k optNatX ts with
    | none => none
    | some (tr, ts) => match listOf (vrow k) ts with
      | none => none
      | some (vals, ts) => match listOf (pair nat (vrow k)) ts with
        | none => none
        | some (cs, ts) => some (⟨ar, tr, vals, cs⟩, ts)
where
  optNatX : P (Option Nat)
    | "x" :: ts => some (none, ts)
    | t :: ts => t.toNat?.map (fun n => (some n, ts))
    | [] => none
  vrow (k : Nat) : P (List Verdict)
    | [] => none
    | t :: ts => if t.length == k then some (t.toList.map verdictOf, ts) else none

/-- the validators that apply: the attached ones plus the conditional ones whose diagnosis result
    existed when the phase started -/
def mkDecl (store : List Nat) (r : RawDecl) : Decl :=
  let active := r.validators ++ (r.conds.filter (fun c => store.contains c.1)).map (·.2)
  { arity := r.arity, transform := fun v => (r.transform.getD v none),
    verdicts := fun x => active.map (fun row => row.getD x .raises), nValidators := active.length }

inductive XOp | op (o : Op) | addResult (r : Nat)

def xop : P XOp
  | "S" :: ts => match pair nat nat ts with | some ((i, v), ts) => some (.op (.set i v), ts) | none => none
  | "D" :: ts => match nat ts with
    | none => none
    | some (i, ts) => match listOf nat ts with
      | none => none
      | some (c, ts) => match nat ts with | some (v, ts) => some (.op (.setDim i c v), ts) | none => none
  | "U" :: ts => some (.op .setUndeclared, ts)
  | "E" :: ts => some (.op .phaseEnd, ts)
  | "A" :: ts => match nat ts with | some (r, ts) => some (.addResult r, ts) | none => none
  -- a write into the copy handed out by get_measurement(): not an assignment to the measurement, nothing changes
  | "G" :: ts => some (.addResult 0, ts)
  | _ => none

def showRes : Res → String
  | .ok => "ok" | .notAMeasurement => "nam" | .invalidDimensions => "dim" | .raised => "raised"
def showOutcome : Outcome → String
  | .pass => "PASS" | .fail => "FAIL" | .unset => "UNSET" | .partiallySet => "PARTIALLY_SET"
def showM (m : M) : String :=
  (match m.stored with | none => "-" | some x => toString x) ++ "," ++
  (if m.entries.isEmpty then "-" else ";".intercalate (m.entries.map (fun e => ".".intercalate (e.1.map toString) ++ "=" ++ toString e.2))) ++ "," ++
  showOutcome m.outcome ++ "," ++ b01 m.marginal
def showState (r : Res) (s : St) : String := "/".intercalate (showRes r :: s.ms.map showM)

/-- independent reference for a dimensioned measurement: coordinates in first-assignment order, each
    with the transform of the last value assigned to it -/
def refEntries (d : Decl) (i : Nat) (ops : List Op) : List (Coord × Val) :=
  let assigns := ops.filterMap (fun o => match o with
    | .setDim j c v => if j == i && d.arity == some c.length then (d.transform v).map (fun x => (c, x)) else none
    | _ => none)
  let ks := (assigns.map (·.1)).eraseDups
  ks.filterMap (fun c => ((assigns.filter (·.1 == c)).getLast?).map (fun e => (c, e.2)))

/-- the property on the REAL observation after the ops so far -/
def failuresAt (decls : List Decl) (opsSoFar : List Op) (real : String) (prevReal : Option String) : List String :=
  let parts := real.splitOn "/"
  let res := parts.headD ""
  let ms := parts.drop 1
  let lastOp := opsSoFar.getLast?
  let ended := opsSoFar.contains .phaseEnd
  (decls.zipIdx.flatMap (fun (d, i) =>
    match (ms.getD i "").splitOn "," with
    | [stored, entries, outcome, marg] =>
      if d.arity.isNone then
        let exp := Spec.lastSet decls i opsSoFar
        (if stored == (match exp with | none => "-" | some x => toString x) then [] else ["recorded-not-transform-of-last"]) ++
        (match exp with
         | none => if outcome == "UNSET" && marg == "0" then [] else ["unset-measurement-has-outcome"]
         | some x =>
           let so := Spec.scalarOutcome d x
           (if outcome == showOutcome so.1 then [] else ["outcome-not-all-validators-on-recorded-value"]) ++
           (if marg == b01 so.2 then [] else ["marginal-not-pass-and-some-validator-marginal"]))
      else
        let re := refEntries d i opsSoFar
        let expE := if re.isEmpty then "-" else ";".intercalate (re.map (fun e => ".".intercalate (e.1.map toString) ++ "=" ++ toString e.2))
        (if entries == expE then [] else ["dimensioned-values-or-order"]) ++
        (if ended && outcome == "PARTIALLY_SET" then ["partially-set-after-phase"] else []) ++
        (if ended && !re.isEmpty then
           let allAcc := re.all (fun e => (d.verdicts e.2).all isAccept)
           (if outcome == (if allAcc then "PASS" else "FAIL") then [] else ["dimensioned-outcome"]) ++
           (if marg == "1" && outcome != "PASS" then ["marginal-without-pass"] else [])
         else [])
    | _ => ["malformed-observation"])) ++
  -- a phase end that reports an error comes from a validator that raised on a recorded value of SOME dimensioned
  -- measurement (judged over all of them: one raising validator does not excuse or accuse the others)
  (if ended && lastOp == some .phaseEnd && res == "raised" &&
      (decls.zipIdx.all (fun (d, i) => d.arity.isNone ||
        (refEntries d i opsSoFar).all (fun e => (d.verdicts e.2).all (fun v => v != .raises))))
   then ["phase-error-without-raising-validator"] else []) ++
  -- rejected operations change nothing
  (match lastOp, prevReal with
   | some _, some prev =>
     if (res == "nam" || res == "dim") && (prev.splitOn "/").drop 1 != ms then ["rejected-op-changed-state"] else []
   | _, _ => [])

def handle (ts : Toks) : String :=
  let (inp, real) := splitAt "#" ts
  match nat inp with
  | none => reply false false "parse-error"
  | some (k, ts) =>
    match listOf nat ts with
    | none => reply false false "parse-error"
    | some (store, ts) =>
      match listOf (decl k) ts with
      | none => reply false false "parse-error"
      | some (rds, ts) =>
        match listOf xop ts with
        | some (xops, []) =>
          let decls := rds.map (mkDecl store)
          -- run the model, emitting one observation per op (an `A` op changes nothing)
          let step1 (acc : St × List String × List Op) (x : XOp) : St × List String × List Op :=
            match x with
            | .op o => let r := step acc.1 o; (r.1, acc.2.1 ++ [showState r.2 r.1], acc.2.2 ++ [o])
            | .addResult _ => (acc.1, acc.2.1 ++ [showState .ok acc.1], acc.2.2)
          let fin := xops.foldl step1 (init decls, [], [])
          let model := fin.2.1
          let agree := model == real
          -- spec on the real observation, op by op
          let opsPrefix : List (List Op) := (List.range xops.length).map (fun n =>
            (xops.take (n + 1)).filterMap (fun x => match x with | .op o => some o | _ => none))
          let fails := ((opsPrefix.zip real).zipIdx.flatMap (fun ((ops, r), n) =>
            failuresAt decls ops r (if n == 0 then none else real[n - 1]?))).eraseDups
          let fails := if real.length == xops.length then fails else fails ++ ["observation-count"]
          reply agree fails.isEmpty
            (if fails.isEmpty then (if agree then "ok" else "model=" ++ " ".intercalate model)
             else ",".intercalate fails ++ " model=" ++ " ".intercalate model)
        | _ => reply false false "parse-error"

end OpenHTF.Driver.C06
