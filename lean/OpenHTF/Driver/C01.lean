import OpenHTF.Spec.Exec
import OpenHTF.Driver.Exec
/- C01 driver: `C01 <test> # <real obs> X:ret:<0|1> X:crash:<n>`; NoFalsePass is evaluated on the REAL
   observation; the converse table through the (proved) decision function of the model. -/
namespace OpenHTF.Driver.C01
open OpenHTF.Driver OpenHTF.Exec OpenHTF.Driver.ExecIO

structure RealRec where
  id : Nat
  outcome : String
  res : String

def realRecs (real : Toks) : List RealRec :=
  real.filterMap (fun t =>
    if !t.startsWith "p" then none else
    match t.splitOn ":" with
    | [p, o, r, _, _, _] => ((p.drop 1).toString.toNat?).map (fun id => ⟨id, o, r⟩)
    | _ => none)

/-- phases that must be accounted for: not below a branch the record says was not taken -/
partial def declared (real : Toks) : Node → List Phase × List String
  | .phase p => ([p], [])
  | .checkpoint _ => ([], [])
  | .seq ns => merge (ns.map (declared real))
  | .subtest _ ns => merge (ns.map (declared real))
  | .group s m t => merge ((s ++ m ++ t).map (declared real))
  | .branch id _ ns =>
    if real.contains ("B" ++ toString id ++ ":0") then ([], [])
    else if real.contains ("B" ++ toString id ++ ":1") then merge (ns.map (declared real))
    else ([], ["branch-never-evaluated"])
where
  merge (l : List (List Phase × List String)) : List Phase × List String :=
    (l.flatMap (·.1), l.flatMap (·.2))

def noFalsePass (cfg : Cfg) (t : Test) (real : Toks) : List String :=
  let recs := realRecs real
  let ret := real.contains "X:ret:1"
  let crash := !real.contains "X:crash:0"
  let pass := real.contains "O:PASS"
  if !pass then (if ret then ["execute-returns-true-without-pass"] else [])
  else
    let (decl, bad) := (t.nodes.map (declared real)).foldl (fun a b => (a.1 ++ b.1, a.2 ++ b.2)) ([], [])
    let phases := (match t.testStart with | some p => [p] | none => []) ++ decl
    (if ret then [] else ["pass-but-execute-returns-false"]) ++
    (if crash then ["executor-itself-failed"] else []) ++
    (if recs.any (·.outcome == "FAIL") then ["fail-record-in-passing-run"] else []) ++
    (recs.filter (·.outcome == "ERROR")).flatMap (fun r =>
      let rot := (phases.filter (·.id == r.id)).any (·.opts.repeatOnTimeout)
      if r.res == "timeout" && rot then ["error-record-in-passing-run(timeout-retried-by-repeat_on_timeout)"]
      else ["error-record-in-passing-run"]) ++
    (if real.any (fun x => x.startsWith "D" && x.endsWith ":1") then ["failure-diagnosis-in-passing-run"] else []) ++
    (if real.any (fun x => x.startsWith "u" && x.endsWith ":FAIL") then ["failed-subtest-in-passing-run"] else []) ++
    (if !recs.isEmpty && recs.all (·.outcome == "SKIP") then ["all-skip-passing-run"] else []) ++
    bad ++
    -- every declared phase ran to a non-failing outcome, or was excluded by a documented rule
    phases.flatMap (fun p =>
      let mine := recs.filter (·.id == p.id)
      let evals := (real.filter (·.startsWith ("er" ++ toString p.id ++ "."))).length
      let excludedByRunIf := match p.opts.runIf with
        | some f => evals > 0 && f (evals - 1) == some false
        | none => false
      (if mine.isEmpty && !excludedByRunIf then ["declared-phase-unaccounted"] else []) ++
      -- measurements of every PASS record passed (UNSET only if allowed)
      (mine.zipIdx.flatMap (fun (r, k) =>
        if r.outcome == "PASS" && !measurementsPass cfg (p.beh k).meas then ["failed-or-unset-measurement-in-pass-record"] else [])))

def handle (ts : Toks) : String :=
  let (inp, real0) := splitAt "#" ts
  let crashTypes := (real0.filter (·.startsWith "X:crashtype:")).map (fun t => (t.drop 12).toString)
  let real := real0.filter (fun t => !t.startsWith "X:crashtype:")
  -- the executor thread died and the run is PASS all the same: reported under the exception that killed it
  if real.contains "O:PASS" && !real.contains "X:crash:0" && !crashTypes.isEmpty then
    reply true false ("executor-itself-failed-yet-PASS:" ++ ",".intercalate crashTypes)
  else
  match test inp with
  | some ((cfg, t), []) =>
    let st := runTest cfg t
    let o := finalize st
    let model := showRun st o ++ ["X:ret:" ++ b01 (o == .pass), "X:crash:0"]
    let agree := model == real
    let fails := (noFalsePass cfg t real ++
      (if real.head? == model.head? then [] else ["outcome-differs-from-decision-table"])).eraseDups
    reply agree fails.isEmpty
      (if fails.isEmpty then (if agree then "ok" else "diff " ++ firstDiff model real)
       else ",".intercalate fails ++ " " ++ firstDiff model real)
  | _ => reply false false "parse-error"

end OpenHTF.Driver.C01
