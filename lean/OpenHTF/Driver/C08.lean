import OpenHTF.Model.Plugs
import OpenHTF.Driver.Exec
/- C08 / C09 driver.
   `C08 <test> PL <nstart> c.. <nall> c.. <nraise> c.. <ncb> b.. # <real obs>`
   real obs = record tokens, `e…` call-log tokens (incl. `eP+c` `eP!c` `eP-c` `eT j` `eCB j`),
   instance tokens `I+:c:serial` `I-:c:serial` `I:pid:arg:c:serial`, `X:ret:b`, and for C09 `R:…` facts. -/
namespace OpenHTF.Driver.C08
open OpenHTF.Driver OpenHTF.Exec OpenHTF.Plugs OpenHTF.Driver.ExecIO

def run : P (Cfg × Run) := fun ts =>
  match test ts with
  | none => none
  | some ((cfg, t), ts) =>
    match ts with
    | "PL" :: ts =>
      match listOf nat ts with
      | none => none
      | some (sp, ts) => match listOf nat ts with
        | none => none
        | some (ap, ts) => match listOf nat ts with
          | none => none
          | some (rs, ts) => match listOf bool ts with
            | none => none
            | some (cbs, ts) =>
              some ((cfg, { test := t, startPlugs := sp, allPlugs := ap,
                            beh := { ctorRaises := fun c => rs.contains c, tearDown := fun _ => .ok }, callbacks := cbs }), ts)
    | _ => none

def showResult (res : Result) : Toks :=
  let st := { res.st with events := res.events }
  showRun st res.outcome ++ ["X:ret:" ++ b01 res.returned]

def isRecordOrEvent (t : String) : Bool :=
  t.startsWith "O:" || t.startsWith "p" || t.startsWith "u" || t.startsWith "B" || t.startsWith "c" ||
  t.startsWith "D" || t.startsWith "e" || t.startsWith "X:ret"

def evKind (t : String) : String :=
  if t.startsWith "eP-" then "tear" else if t.startsWith "eCB" then "cb" else if t.startsWith "eP+" then "ctor"
  else if t.startsWith "eP!" then "ctorfail" else if t.startsWith "eb" then "body" else if t.startsWith "eT" then "tdiag"
  else "other"

def okAfterTearToks : List String → Bool
  | [] => true
  | e :: es => (if evKind e == "tear" then es.all (fun x => evKind x == "tear" || evKind x == "cb") else true) && okAfterTearToks es

/-- output callbacks come after every plug tearDown: no tearDown event after a callback event -/
def okNoTearAfterCb : List String → Bool
  | [] => true
  | e :: es => (if evKind e == "cb" then es.all (fun x => evKind x != "tear") else true) && okNoTearAfterCb es

/-- the plug lifecycle property on the REAL observation -/
def lifecycleFailures (r : Run) (real : Toks) : List String :=
  let evs := real.filter (·.startsWith "e")
  let classes := (r.startPlugs ++ r.allPlugs).eraseDups
  let cnt (pre : String) (c : Nat) := (evs.filter (· == pre ++ toString c)).length
  let inst (pre : String) (c : Nat) : List String :=
    (real.filter (·.startsWith (pre ++ toString c ++ ":"))).map (fun t => (t.splitOn ":").getLastD "")
  let startId : Option Nat := r.test.testStart.map (·.id)
  (classes.flatMap (fun c =>
    (if cnt "eP+" c ≤ 1 then [] else ["plug-constructed-more-than-once"]) ++
    (if cnt "eP-" c == cnt "eP+" c then [] else ["teardown-not-exactly-once-per-instance"]) ++
    -- every phase that got the plug got the one constructed instance, and that one was torn down
    (let seen := (real.filter (fun t => t.startsWith "I:" && ((t.splitOn ":").getD 3 "") == toString c)).map (fun t => (t.splitOn ":").getLastD "")
     if seen.all (fun s => inst "I+:" c == [s]) && (inst "I-:" c).all (fun s => inst "I+:" c == [s]) then []
     else ["phase-received-a-different-instance"]))) ++
  (if okAfterTearToks evs then [] else ["teardown-before-last-phase-or-after-callbacks"]) ++
  -- constructor failure: no phase body afterwards
  (match evs.dropWhile (fun e => evKind e != "ctorfail") with
   | [] => []
   | _ :: after => if after.any (fun e => evKind e == "body") then ["phase-executed-after-plug-constructor-failure"] else []) ++
  (if evs.any (fun e => evKind e == "ctorfail") && !(real.contains "O:ERROR") then ["plug-constructor-failure-not-ERROR"] else []) ++
  -- while test_start runs only its plugs exist
  (match startId with
   | none => []
   | some sid =>
     let before := evs.takeWhile (fun e => !(e.startsWith ("eb" ++ toString sid ++ ".")))
     if evs.any (·.startsWith ("eb" ++ toString sid ++ ".")) &&
        before.any (fun e => evKind e == "ctor" && !(r.startPlugs.any (fun c => e == "eP+" ++ toString c)))
     then ["other-plugs-exist-during-test-start"] else [])

/-- `C08 ABORT <nclasses> # <real obs>`: an operator abort was the fault. The lifecycle contract on the real observation:
    constructor at most once per class, tearDown exactly once per constructed instance, nothing but tearDowns and
    callbacks after the first tearDown (no phase body that was not asked to terminate is still running), the outcome is ABORTED or the
    run had already ended. -/
def handleAbort (ts : Toks) : String :=
  match ts with
  | nT :: "#" :: real =>
    let n := nT.toNat?.getD 0
    -- a body that was asked to terminate is abandoned by design (join_or_die stops waiting once the kill was issued):
    -- the moment its ThreadTerminationError unwinds it is not "a phase still running"
    let evs := real.filter (fun e => e.startsWith "e" && !(e.startsWith "ee" && e.endsWith ":killed"))
    let cnt (pre : String) (c : Nat) := (evs.filter (· == pre ++ toString c)).length
    let fails : List String :=
      ((List.range n).flatMap (fun c =>
        (if cnt "eP+" c ≤ 1 then [] else ["plug-constructed-more-than-once"]) ++
        (if cnt "eP-" c == cnt "eP+" c then [] else ["teardown-not-exactly-once-per-instance"]))) ++
      (if okAfterTearToks evs then [] else ["teardown-before-last-phase-ended-or-after-callbacks"]) ++
      (if okNoTearAfterCb evs then [] else ["output-callback-before-plug-teardown"]) ++
      (if real.contains "O:DEADLOCK" then ["deadlock"] else []) ++
      (if real.contains "X:ret:1" == real.contains "O:PASS" then [] else ["return-value-not-iff-pass"])
    reply true fails.eraseDups.isEmpty (if fails.isEmpty then "ok" else ",".intercalate fails.eraseDups)
  | _ => reply false false "parse-error"

def handle (ts : Toks) : String :=
  if ts.head? == some "ABORT" then handleAbort (ts.drop 1) else
  let (inp, real) := splitAt "#" ts
  match run inp with
  | some ((cfg, r), []) =>
    let res := execute cfg r
    let model := showResult res
    let realCore := real.filter isRecordOrEvent
    let agree := model == realCore
    let fails := (lifecycleFailures r real ++ (real.filter (·.startsWith "XF:")).map (fun t => (t.drop 3).toString) ++
      (if real.head? == model.head? then [] else ["outcome-changed-by-plug-teardown-or-differs"])).eraseDups
    reply agree fails.isEmpty
      (if fails.isEmpty then (if agree then "ok" else "diff " ++ firstDiff model realCore)
       else ",".intercalate fails ++ " " ++ firstDiff model realCore)
  | _ => reply false false "parse-error"

end OpenHTF.Driver.C08
