import OpenHTF.Model.Render
import OpenHTF.Driver.Util
/- C10 driver.
   pyval := `N` | `T` | `F` | `I<int>` | `Xnan` | `Xinf` | `Xninf` | `S<hex>` | `E<hex>` | `L n v..` | `U n v..` | `D n (<khex> v)..`
   `C10 V <js 0|1> <pyval> # <real pyval>`                         convert_to_base_types
   `C10 M <dim 0|1> <transform id|wrap> <nops> op.. # <reads>`      measurement caches; op := `S v outcome` | `D n c.. v` | `V outcome` | `R`
        reads := per R: `<outcome> <pyval|->`
   `C10 R <fact>=<0|1>.. <name>=<a>:<b>..`                          record-level facts (differential, see DESIGN) -/
namespace OpenHTF.Driver.C10
open OpenHTF.Driver OpenHTF.Render

def strOfHex (h : String) : String := match unhex h with
  | some l => String.ofList (l.map Char.ofNat)
  | none => "?"

partial def pyval : P PyVal := fun ts =>
  match ts with
  | "N" :: ts => some (.none, ts)
  | "T" :: ts => some (.bool true, ts)
  | "F" :: ts => some (.bool false, ts)
  | "Xnan" :: ts => some (.nonfinite .nan, ts)
  | "Xinf" :: ts => some (.nonfinite .posInf, ts)
  | "Xninf" :: ts => some (.nonfinite .negInf, ts)
  | "L" :: ts => match listOf pyval ts with | some (l, ts) => some (.list l, ts) | none => none
  | "U" :: ts => match listOf pyval ts with | some (l, ts) => some (.tuple l, ts) | none => none
  | "D" :: ts => match listOf (pair tok pyval) ts with
    | some (kvs, ts) => some (.dict (kvs.map (fun kv => (strOfHex kv.1, kv.2))), ts) | none => none
  | t :: ts =>
    if t.startsWith "I" then ((t.drop 1).toString.toInt?).map (fun z => (.int z, ts))
    else if t.startsWith "S" then some (.str (strOfHex (t.drop 1).toString), ts)
    else if t.startsWith "E" then some (.enum (strOfHex (t.drop 1).toString), ts)
    else none
  | [] => none

def hexOfStr (s : String) : String := hex (s.toList.map Char.toNat)

partial def showPy : PyVal → List String
  | .none => ["N"]
  | .bool true => ["T"]
  | .bool false => ["F"]
  | .int z => ["I" ++ toString z]
  | .nonfinite .nan => ["Xnan"]
  | .nonfinite .posInf => ["Xinf"]
  | .nonfinite .negInf => ["Xninf"]
  | .str s => ["S" ++ hexOfStr s]
  | .enum s => ["E" ++ hexOfStr s]
  | .list l => ["L", toString l.length] ++ l.flatMap showPy
  | .tuple l => ["U", toString l.length] ++ l.flatMap showPy
  | .dict kvs => ["D", toString kvs.length] ++ kvs.flatMap (fun kv => hexOfStr kv.1 :: showPy kv.2)

def eqPy (a b : PyVal) : Bool := showPy a == showPy b
def eqc (a b : List PyVal) : Bool := a.length == b.length && (a.zip b).all (fun p => eqPy p.1 p.2)

inductive ROp | set (v : PyVal) (o : String) | setDim (c : List PyVal) (v : PyVal) | validate (o : String) | read

def rop : P ROp
  | "S" :: ts => match pyval ts with
    | some (v, o :: ts) => some (.set v o, ts) | _ => none
  | "D" :: ts => match listOf pyval ts with
    | some (c, ts) => match pyval ts with | some (v, ts) => some (.setDim c v, ts) | none => none
    | none => none
  | "V" :: o :: ts => some (.validate o, ts)
  | "R" :: ts => some (.read, ts)
  | _ => none

def showRead (r : String × Option PyVal) : List String :=
  r.1 :: (match r.2 with | none => ["-"] | some v => showPy v)

def handle (ts : Toks) : String :=
  let (inp, real) := splitAt "#" ts
  match inp with
  | "V" :: js :: rest =>
    match pyval rest with
    | some (v, []) =>
      let m := showPy (convert (js == "1") v)
      let closed := isBase (convert (js == "1") v) && (js != "1" || finite (convert true v))
      reply (m == real) (m == real && closed) (if m == real then "ok" else "conversion model=" ++ " ".intercalate m)
    | _ => reply false false "parse-error"
  | "M" :: dim :: tr :: rest =>
    match listOf rop rest with
    | some (ops, []) =>
      let f : PyVal → PyVal := fun v => if tr == "wrap" then .list [v, v] else v
      let stepR (acc : MeasState × List String × List String) (o : ROp) : MeasState × List String × List String :=
        match o with
        | .set v oc => (step eqc acc.1 (.set (f v) oc), acc.2.1, acc.2.2)
        | .setDim c v => (step eqc acc.1 (.setDim c (f v)), acc.2.1, acc.2.2)
        | .validate oc => (step eqc acc.1 (.validate oc), acc.2.1, acc.2.2)
        | .read =>
          let m := step eqc acc.1 .read
          (m, acc.2.1 ++ showRead (renderCached m) ++ ["|"], acc.2.2 ++ showRead (renderFresh m) ++ ["|"])
      let fin := ops.foldl stepR ({ dimensioned := dim == "1" }, [], [])
      let agree := fin.2.1 == real
      let holds := fin.2.2 == real
      reply agree holds (if holds then (if agree then "ok" else "model=" ++ " ".intercalate fin.2.1)
                         else "base-type-view-differs-from-fresh-rendering fresh=" ++ " ".intercalate fin.2.2)
    | _ => reply false false "parse-error"
  | "R" :: facts =>
    let bad := facts.filter (fun f =>
      match f.splitOn "=" with
      | [_, v] => match v.splitOn ":" with
        | [a, b] => a != b
        | [x] => x != "1"
        | _ => true
      | _ => true)
    reply bad.isEmpty bad.isEmpty (if bad.isEmpty then "ok" else ",".intercalate (bad.map (fun f => (f.splitOn "=").headD f)))
  | _ => reply false false "parse-error"

end OpenHTF.Driver.C10
