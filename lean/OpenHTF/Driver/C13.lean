import OpenHTF.Model.AdbFrame
import OpenHTF.Driver.Util
/- C13 driver.
   `C13 W <cmdname> <arg0> <arg1> <datahex|-> <expired 0|1> # <chunkhex|->...`   write_message
   `C13 R <n> <chunkhex|->... # <result>`                                            read_message
        result = `ok:<cmdname>:<arg0>:<arg1>:<datahex>` | `protocol` | `integrity` | `readfailed` | `other:<Exc>`
   `C13 L <n> <tid>:<h|d>... # -`                                                   transport write log of concurrent writers -/
namespace OpenHTF.Driver.C13
open OpenHTF.Driver OpenHTF.AdbFrame

def hx (l : List Nat) : String := if l.isEmpty then "-" else hex l

def nameOf (w : Nat) : String :=
  match (cmdNames.filter (fun n => wire n == w)).head? with
  | some n => n | none => "?"

def showRes : Except Err Msg → String
  | .ok m => "ok:" ++ nameOf m.cmd ++ ":" ++ toString m.arg0 ++ ":" ++ toString m.arg1 ++ ":" ++ hx m.data
  | .error .protocol => "protocol"
  | .error .integrity => "integrity"
  | .error .readFailed => "readfailed"

/-- Spec, as a flat decision table independent of the reader's control flow:
    what must come out of a transport script -/
def specRead (script : List (List Nat)) : String :=
  match script with
  | [] => "readfailed"
  | h :: rest =>
    if h.length != 24 then "protocol" else
    let w (i : Nat) : Nat := (h.drop (4*i)).getD 0 0 + 256 * (h.drop (4*i)).getD 1 0 + 65536 * (h.drop (4*i)).getD 2 0 + 16777216 * (h.drop (4*i)).getD 3 0
    let len := w 3
    let known := cmds.contains (w 0)
    if len > 0 && rest.isEmpty then "readfailed" else
    let data := if len > 0 then rest.headD [] else []
    if !known then "protocol"
    else if data.length != len || data.sum % 4294967296 != w 4 then "integrity"
    else "ok:" ++ nameOf (w 0) ++ ":" ++ toString (w 1) ++ ":" ++ toString (w 2) ++ ":" ++ hx data

/-- Spec of a written frame: 24-byte little-endian header (command, arg0, arg1, length, byte sum,
    command xor 0xFFFFFFFF) immediately followed by the payload -/
def specWrite (cmd a0 a1 : Nat) (data : List Nat) : List String :=
  let word (w : Nat) : List Nat := [w % 256, w / 256 % 256, w / 65536 % 256, w / 16777216 % 256]
  [hx (word cmd ++ word a0 ++ word a1 ++ word data.length ++ word (data.sum % 4294967296) ++ word (cmd ^^^ 4294967295)), hx data]

def logEntry : P (Nat × Bool)
  | [] => none
  | t :: ts => match t.splitOn ":" with
    | [i, k] => match i.toNat? with
      | some n => some ((n, k == "h"), ts)
      | none => none
    | _ => none

def handle (ts : Toks) : String :=
  let (inp, real) := splitAt "#" ts
  match inp with
  | ["W", name, a0, a1, d, e] =>
    match a0.toNat?, a1.toNat?, unhex (if d == "-" then "" else d) with
    | some a0, some a1, some data =>
      let m : Msg := ⟨wire name, a0, a1, data⟩
      let model := (writeMessage m (e == "1")).map hx
      let spec := specWrite (wire name) a0 a1 data
      let holds := real == spec && cmdNames.contains name
      reply (model == real) holds (if holds then "ok" else "written-frame model=" ++ " ".intercalate model)
    | _, _, _ => reply false false "parse-error"
  | "R" :: rest =>
    match listOf hexTok rest with
    | some (script, []) =>
      let model := showRes (readMessage script).1
      let spec := specRead script
      let holds := real == [spec]
      let why := if holds then "ok" else
        (if spec.startsWith "ok:" then "valid-frame-not-delivered" else
         if (real.headD "").startsWith "ok:" then "corrupt-frame-delivered" else "wrong-error-kind") ++ " expected=" ++ spec
      reply (real == [model]) holds (why ++ " model=" ++ model)
    | _ => reply false false "parse-error"
  | "L" :: rest =>
    match listOf logEntry rest with
    | some (log, []) =>
      let ok := framed log == some none
      reply ok ok (if ok then "ok" else "writers-interleaved")
    | _ => reply false false "parse-error"
  | _ => reply false false "parse-error"

end OpenHTF.Driver.C13
