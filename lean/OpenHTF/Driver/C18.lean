import OpenHTF.Model.Subscribe
import OpenHTF.Driver.Util
/- C18 driver.
   `C18 M <act>* # <nW> (<snap|-> <isSet>){nW} <finalVersion|-> <extra>*`
     act := wa:i | wd:i | wr:i | ws:i | um:u | ua:u | us:u:<k,k,..|-> | uc:u | ur:u
     extra := X:deadlock | X:lastsnap-not-final | X:<anything>   (harness-detected facts about the real run)
   The model replays the observed action sequence (every action must be enabled; the events a
   notification sets must be exactly the registered ones); its per-watcher snapshot / event flag and
   the final version are compared with the real ones. The spec is evaluated on the REAL flags.
   `C18 N <kind>:<0|1>* F:<0|1>`  notification coverage of a real run: every scripted mutation kind was
     followed by a notification; the final state equals the state at the last notification. -/
namespace OpenHTF.Driver.C18
open OpenHTF.Driver OpenHTF.Subscribe

inductive Tok
  | act (a : Act) (setList : Option (List Nat))
deriving Repr

def natList (s : String) : Option (List Nat) :=
  if s == "-" then some [] else (s.splitOn ",").mapM (·.toNat?)

def parseAct (t : String) : Option Tok :=
  match t.splitOn ":" with
  | ["wa", i] => i.toNat?.map (fun i => .act (.wAcq i) none)
  | ["wd", i] => i.toNat?.map (fun i => .act (.wAdd i) none)
  | ["wr", i] => i.toNat?.map (fun i => .act (.wRel i) none)
  | ["ws", i] => i.toNat?.map (fun i => .act (.wSnap i) none)
  | ["um", u] => u.toNat?.map (fun u => .act (.uMutate u) none)
  | ["ua", u] => u.toNat?.map (fun u => .act (.uAcq u) none)
  | ["us", u, l] => match u.toNat?, natList l with
    | some u, some l => some (.act (.uSetAll u) (some l))
    | _, _ => none
  | ["uc", u] => u.toNat?.map (fun u => .act (.uClear u) none)
  | ["ur", u] => u.toNat?.map (fun u => .act (.uRel u) none)
  | _ => none

def insertSorted (x : Nat) : List Nat → List Nat
  | [] => [x]
  | y :: ys => if x ≤ y then x :: y :: ys else y :: insertSorted x ys
def sortNat (l : List Nat) : List Nat := l.foldr insertSorted []

/-- replay with the extra driver-side comparison of the set-list; error = (index, reason) -/
def replayToks (s : S) (k : Nat) : List Tok → Except (Nat × String) S
  | [] => .ok s
  | .act a sl :: rest =>
    let okList := match sl with
      | some l => sortNat l == sortNat s.members
      | none => true
    if !okList then .error (k, "notification-set-other-events-than-the-registered-ones")
    else match step s a with
      | some s' => replayToks s' (k + 1) rest
      | none => .error (k, "action-not-enabled")

def isSetAll : Tok → Bool
  | .act (.uSetAll _) _ => true
  | _ => false
def isSnapOf (i : Nat) : Tok → Bool
  | .act (.wSnap j) _ => i == j
  | _ => false
def isRelOf (i : Nat) : Tok → Bool
  | .act (.wRel j) _ => i == j
  | _ => false
def isMutOf : Tok → Option Nat
  | .act (.uMutate u) _ => some u
  | _ => none
def isSetAllOf (u : Nat) : Tok → Bool
  | .act (.uSetAll v) _ => u == v
  | _ => false

/-- does some token satisfying q occur strictly after the first token satisfying p? -/
def afterFirst (p q : Tok → Bool) (l : List Tok) : Bool :=
  ((l.dropWhile (fun t => !p t)).drop 1).any q

/-- every mutation is followed by a set-all of the same updater -/
def allNotified : List Tok → Bool
  | [] => true
  | t :: rest => (match isMutOf t with
      | some u => rest.any (isSetAllOf u)
      | none => true) && allNotified rest

def handleM (ts : Toks) : String :=
  let (actsT, real) := splitAt "#" ts
  match actsT.mapM parseAct, real with
  | some toks, nWt :: rest =>
    match nWt.toNat? with
    | none => reply false false "parse-error"
    | some nW =>
      let pairs := rest.take (2 * nW)
      let tail := rest.drop (2 * nW)
      let finalV := tail.headD "-"
      let extras := tail.drop 1
      let realSnap (i : Nat) : Option Nat := (pairs.getD (2 * i) "-").toNat?
      let realSet (i : Nat) : Bool := pairs.getD (2 * i + 1) "0" == "1"
      let idx := List.range nW
      -- spec on the real observation
      let lost := idx.filter (fun i => afterFirst (isSnapOf i) isSetAll toks && !realSet i)
      let notWoken := idx.filter (fun i =>
        -- registered before some set-all
        afterFirst (isRelOf i) isSetAll toks && !realSet i)
      let stale := match finalV.toNat? with
        | some v => if allNotified toks then idx.filter (fun i => match realSnap i with
            | some sv => decide (sv < v) && !realSet i
            | none => false) else []
        | none => []
      let fails : List String :=
        (if lost.isEmpty then [] else ["lost-update:event-not-set-after-notification-following-snapshot:w" ++ toString (lost.headD 0)]) ++
        (if notWoken.isEmpty then [] else ["registered-watcher-not-woken-by-notification:w" ++ toString (notWoken.headD 0)]) ++
        (if stale.isEmpty then [] else ["stale-watcher-not-woken-on-quiescent-state:w" ++ toString (stale.headD 0)]) ++
        (extras.filter (·.startsWith "X:")).map (fun e => "real-run:" ++ (e.drop 2).toString)
      -- model
      match replayToks {} 0 toks with
      | .error (k, why) =>
        reply false fails.isEmpty (",".intercalate (fails ++ ["model-rejects-action-" ++ toString k ++ ":" ++ why]))
      | .ok s =>
        let snapOk := idx.all (fun i => match realSnap i with
          | some sv => (s.ws i).pc == 3 && (s.ws i).snap == sv
          | none => true)
        let setOk := idx.all (fun i => (s.ws i).isSet == realSet i)
        let verOk := match finalV.toNat? with | some v => s.version == v | none => true
        let agree := snapOk && setOk && verOk
        reply agree fails.isEmpty
          (if fails.isEmpty then (if agree then "ok" else
              "model-differs:" ++ (if snapOk then "" else "snapshot ") ++ (if setOk then "" else "isSet ") ++ (if verOk then "" else "version"))
           else ",".intercalate fails)
  | _, _ => reply false false "parse-error"

/-- the modelled notification discipline of TestState: which mutation kinds are followed by notify_update -/
def notifiedKinds : List String :=
  ["status", "phase-start", "phase-end", "measurement", "dimensioned", "log", "dut-id", "start-time", "finalize"]

def handleN (ts : Toks) : String :=
  let obs := ts.filterMap (fun t => match t.splitOn ":" with
    | [k, v] => some (k, v == "1")
    | _ => none)
  let missing := obs.filter (fun kv => !kv.2)
  let unknown := obs.filter (fun kv => kv.1 != "F" && !notifiedKinds.contains kv.1)
  let fails := missing.map (fun kv => if kv.1 == "F" then "final-state-differs-from-state-at-last-notification"
                                      else "change-not-followed-by-notification:" ++ kv.1)
  reply unknown.isEmpty fails.isEmpty (if fails.isEmpty then "ok" else ",".intercalate fails)

def handle (ts : Toks) : String :=
  match ts with
  | "M" :: rest => handleM rest
  | "N" :: rest => handleN rest
  | _ => reply false false "parse-error"

end OpenHTF.Driver.C18
