import OpenHTF.Spec.Exec
import OpenHTF.Driver.Exec
/- C05 driver: `C05 <test> # <real obs>`; the spec is evaluated per phase on the REAL observation. -/
namespace OpenHTF.Driver.C05
open OpenHTF.Driver OpenHTF.Exec OpenHTF.Driver.ExecIO

partial def phasesOf : Node → List Phase
  | .phase p => [p]
  | .seq ns => ns.flatMap phasesOf
  | .group s m t => (s ++ m ++ t).flatMap phasesOf
  | .subtest _ ns => ns.flatMap phasesOf
  | .branch _ _ ns => ns.flatMap phasesOf
  | .checkpoint _ => []

structure RealRec where
  outcome : String
  res : String
  sub : String

def realRecs (real : Toks) (id : Nat) : List RealRec :=
  real.filterMap (fun t =>
    match t.splitOn ":" with
    | [p, o, r, s, _, _] => if p == "p" ++ toString id then some ⟨o, r, s⟩ else none
    | _ => none)

def countPrefix (real : Toks) (pre : String) : Nat := (real.filter (·.startsWith pre)).length

def isErrorRaw (cfg : Cfg) (o : Opts) (inSub isLast : Bool) (inv : Inv) : Bool :=
  Spec.phaseOutcome cfg o inSub isLast inv == .error

def checkPhase (cfg : Cfg) (real : Toks) (p : Phase) : List String :=
  let recs := realRecs real p.id
  let bodies := countPrefix real ("eb" ++ toString p.id ++ ".")
  let limit := repeatLimit cfg p.opts
  let evals := countPrefix real ("er" ++ toString p.id ++ ".")
  (if bodies ≤ limit then [] else ["invoked-more-than-repeat-limit"]) ++
  (if bodies == 0 then
     (match recs with
      | [] => []
      | [r] => if r.outcome == "SKIP" && r.res == "skip" then [] else ["record-without-invocation"]
      | _ => ["record-without-invocation"])
   else if recs.length == bodies then [] else ["one-record-per-invocation"]) ++
  ((List.range (min bodies recs.length)).flatMap (fun k =>
    let r := recs.getD k ⟨"", "", ""⟩
    let inSub := r.sub != "-"
    -- the repeat loop counts iterations; an iteration whose run_if is false consumes one without a body
    let iter : Nat := match p.opts.runIf with
      | none => k + 1
      | some f => (((List.range evals).filter (fun i => f i == some true)).getD k k) + 1
    let isLast := decide (iter ≥ limit)
    let inv := p.beh k
    let exp := Spec.phaseOutcome cfg p.opts inSub isLast inv
    let nd := countPrefix real ("ed" ++ toString p.id ++ "." ++ toString k ++ ".")
    (if r.outcome == showPO exp then [] else ["outcome-table"]) ++
    (if nd == Spec.diagnosersRun inSub inv then [] else ["diagnosers-run-once-each"]) ++
    (if k + 1 < bodies then
       -- the body was invoked again: there must be a documented reason
       (if inv.raw == .ret .rep || (inv.raw == .timeout && p.opts.repeatOnTimeout) ||
           (exp != .error && (p.opts.forceRepeat || (p.opts.repeatOnMeasFail && exp == .fail)))
        then [] else ["reinvoked-without-reason"])
     else []))) ++
  (match p.opts.runIf with
   | none => if evals == 0 then [] else ["run-if-evaluated-without-run-if"]
   | some f =>
     let trues := ((List.range evals).filter (fun i => f i == some true)).length
     (if bodies == trues then [] else ["body-vs-run-if"]) ++
     -- a false run_if excludes the phase: it is the last evaluation (nothing is re-evaluated, nothing runs afterwards)
     (if (List.range (evals - 1)).all (fun i => f i != some false) then [] else ["run-if-false-yet-evaluated-again"]))

def handle (ts : Toks) : String :=
  let (inp, real) := splitAt "#" ts
  match test inp with
  | some ((cfg, t), []) =>
    let st := runTest cfg t
    let model := showRun st (finalize st)
    let agree := model == real
    let ps := (match t.testStart with | some p => [p] | none => []) ++ t.nodes.flatMap phasesOf
    let fails := (ps.flatMap (checkPhase cfg real)).eraseDups
    reply agree fails.isEmpty
      (if fails.isEmpty then (if agree then "ok" else "diff " ++ firstDiff model real)
       else ",".intercalate fails ++ " " ++ firstDiff model real)
  | _ => reply false false "parse-error"

end OpenHTF.Driver.C05
