import OpenHTF.Model.Abort
import OpenHTF.Driver.Util
/- C04 driver.
   `C04 <thread|sigint> <nAborts> # <event>* | <sync action>*`
     event := bs:<id>:<s|m|t|x>  body of a setup / main / teardown / test_start phase started
            | be:<id>:<ok|killed|exc>  body ended
            | pc:<c> | pt:<c>     plug constructed / torn down
            | cb:<j>              output callback
            | ac:<n> | ar:<n>     n-th abort call / return
            | need:<id>           teardown phase of a group whose setup completed (harness bookkeeping)
            | O:<outcome> R:<ret> S:<returned|deadlock|hang> X:<fact>
   The spec is evaluated on the real event log; the sync actions (after `|`) are replayed by the interleaving
   model of Model/Abort.lean. -/
namespace OpenHTF.Driver.C04
open OpenHTF.Driver OpenHTF.Abort

def field (t : String) (i : Nat) : String := (t.splitOn ":").getD i ""

def isBs (t : String) : Bool := t.startsWith "bs:"
def isBe (t : String) : Bool := t.startsWith "be:"
def nonTd (t : String) : Bool := isBs t && field t 2 != "t"

def after (mark : String) (l : Toks) : Toks := (l.dropWhile (· != mark)).drop 1
def before (mark : String) (l : Toks) : Toks := l.takeWhile (· != mark)

/-- bodies never overlap: every `bs` is followed by its own `be` before the next `bs` -/
def overlap : Toks → Option String
  | [] => none
  | t :: rest =>
    if isBs t then
      let id := field t 1
      let upto := rest.takeWhile (fun u => !(isBe u && field u 1 == id))
      if upto.any isBs && rest.any (fun u => isBe u && field u 1 == id) then some id else overlap rest
    else overlap rest

def parseAct (t : String) : Option Act :=
  match t with
  | "eExec" => some .eExec | "eAb" => some .eAbortCheck | "eS2" => some .eStopCheck2 | "eCA" => some .eCurAcq
  | "eS3" => some .eStopCheck3 | "eSt" => some .eStart | "eRf" => some .eRefuse | "eCR" => some .eCurRel
  | "eKT" => some .eKillTimeout | "eCl" => some .eClear | "eTA" => some .eTdAcq | "eTR" => some .eTdRel
  | "eFa" => some .eFaCheck | "eRs" => some .eReset | "eFi" => some .eFinal | "pDie" => some .pDie
  | "aBegin" => some .aBegin | "aNest" => some .aNest | "aRA" => some .aReadAbort | "aSA" => some .aSetAbort
  | "aSF" => some .aSetFull | "aRE" => some .aReadExec | "aTT" => some .aTryTd | "aSS" => some .aSetStop
  | "aCA" => some .aCurAcq | "aCR" => some .aCurRel | "aK" => some .aKill | "aKI" => some .aKilled
  | _ => none

def isSync (t : String) : Bool := (parseAct t).isSome || t == "aFin"

/-- `aFin`: the abort call returns: the steps the trace does not show (kill of a thread that was found dead, the wait
    for the killed thread, stop_running_phase, release) are replayed until that call has returned -/
def finishAbort (fuel : Nat) (target : Nat) (s : S) : Option S :=
  match fuel with
  | 0 => none
  | fuel + 1 =>
    if s.nRet = target then some s
    else
      let next : Option S :=
        (step s .aKill).orElse fun _ => (step s .aWait).orElse fun _ => (step s .aGiveUp).orElse fun _ => step s .aEnd
      match next with
      | some s' => finishAbort fuel target s'
      | none => none

def openCalls (s : S) : Nat := (if s.aPc = 0 then 0 else 1) + (if s.aSaved = 0 then 0 else 1)

/-- `depth` = number of abort calls the trace has open -/
def replayToks (s : S) (k depth : Nat) (early : Nat) : Toks → Except (Nat × String) S
  | [] => .ok s
  | t :: rest =>
    if t == "aFin" || t == "aKI" then
      -- `early`: calls still open in the trace that the model had already returned from when a handler interrupted them
      -- (they are below the innermost call); once only those are left, their return needs no model step
      if depth ≤ early then replayToks s (k + 1) (depth - 1) (early - 1) rest
      -- the model may already have returned from the innermost call (early return inside an action)
      else if openCalls s < depth - early then replayToks s (k + 1) (depth - 1) early rest
      else if t == "aFin" then
        match finishAbort 8 (s.nRet + 1) s with
        | some s' => replayToks s' (k + 1) (depth - 1) early rest
        | none => .error (k, t)
      else match step s .aKilled with
        | some s' => replayToks s' (k + 1) (depth - 1) early rest
        | none => .error (k, t)
    else match parseAct t with
      | none => .error (k, "unknown:" ++ t)
      | some a => match step s a with
        | some s' => replayToks s' (k + 1) (if t == "aBegin" || t == "aNest" then depth + 1 else depth) early rest
        | none =>
          -- a handler that interrupts a call which has already done its last modelled action (it found the teardown
          -- lock taken / no executor and is on its way out): for the model that call has returned, this one begins
          if t == "aNest" && s.aPc == 0 then
            match step s .aBegin with
            | some s' => replayToks s' (k + 1) (depth + 1) (early + 1) rest
            | none => .error (k, t)
          else .error (k, t)

/-- positions (in the merged stream) at which an abort call returned, with "it took the forced path" -/
def returns : Toks → List Bool → Nat → List (Nat × Bool)
  | [], _, _ => []
  | t :: rest, stack, k =>
    if t == "aBegin" || t == "aNest" then returns rest (false :: stack) (k + 1)
    else if t == "aSF" then returns rest (true :: stack.drop 1) (k + 1)
    else if t == "aFin" || t == "aKI" then (k, stack.headD false && t == "aFin") :: returns rest (stack.drop 1) (k + 1)
    else returns rest stack (k + 1)

def isEv (t : String) : Bool :=
  isBs t || isBe t || t.startsWith "pc:" || t.startsWith "pt:" || t.startsWith "cb:" || t.startsWith "ac:" || t.startsWith "ar:"

def handle (ts : Toks) : String :=
  match ts with
  | mode :: nT :: "#" :: rest =>
    let (stream, _) := splitAt "|" rest
    let ev := stream.filter isEv
    let sync := stream.filter isSync
    let needs := (stream.filter (·.startsWith "need:")).map (field · 1)
    let noNeeds := (stream.filter (·.startsWith "noneed:")).map (field · 1)
    let outcome := ((stream.filter (·.startsWith "O:")).headD "O:?").drop 2 |>.toString
    let status := ((stream.filter (·.startsWith "S:")).headD "S:?").drop 2 |>.toString
    let retv := ((stream.filter (·.startsWith "R:")).headD "R:?").drop 2 |>.toString
    let facts := (stream.filter (·.startsWith "X:")).map (fun e => (e.drop 2).toString)
    let rets := returns stream [] 0
    -- first completed abort call, first completed forced abort call
    let firstRet := rets.head?.map (·.1)
    let forcedRet := (rets.find? (·.2)).map (·.1)
    let afterPos (p : Nat) : Toks := (stream.drop (p + 1)).filter isEv
    let beforePos (p : Nat) : Toks := (stream.take p).filter isEv
    let abortSetBeforeFinal := (before "eFi" stream).contains "aSA" && stream.contains "eFi"
    let tdStarted := (ev.filter (fun t => isBs t && field t 2 == "t")).map (field · 1)
    -- one operator abort was requested (whatever the code then did with it), or no forced abort happened
    let single := nT == "1" || !stream.contains "aSF"
    let pcs := (ev.filter (·.startsWith "pc:")).map (field · 1)
    let pts := (ev.filter (·.startsWith "pt:")).map (field · 1)
    let cbs := ev.filter (·.startsWith "cb:")
    -- SIGINT whose handler raised KeyboardInterrupt into a part of execute() that is not protected by its try block
    let kiOutside := mode == "sigint" && retv == "KI" && cbs.isEmpty && status == "returned"
    let sigBeforeWait := kiOutside && !((before "ac:1" stream).contains "W")
    let sigDuringOutput := kiOutside && !sigBeforeWait && (before "ac:1" stream).contains "eFi"
    let fails : List String :=
      (if status != "returned" then ["execute-did-not-return:" ++ status] else []) ++
      (match firstRet with
       | some p => if (afterPos p).any nonTd then ["body-started-after-abort-returned:" ++ ((afterPos p).find? nonTd).getD ""] else []
       | none => []) ++
      (if single && status == "returned" && !kiOutside then
         (needs.filter (fun i => !tdStarted.contains i)).map (fun i => "teardown-of-entered-group-not-run:" ++ i) else []) ++
      (noNeeds.filter (fun i => tdStarted.contains i)).map (fun i => "teardown-of-a-group-whose-setup-did-not-complete-ran:" ++ i) ++
      (if single then
         (ev.filter (fun t => isBe t && field t 2 == "killed" && tdStarted.contains (field t 1))).map
           (fun t => "teardown-cancelled-by-single-abort:" ++ field t 1) else []) ++
      (if status == "returned" && !kiOutside then (pcs.filter (fun c => (pts.filter (· == c)).length != 1)).map
         (fun c => "plug-not-torn-down-exactly-once:" ++ c) else []) ++
      (if status == "returned" && abortSetBeforeFinal && outcome != "ABORTED" && !kiOutside then ["outcome-" ++ outcome ++ "-instead-of-ABORTED"] else []) ++
      (if abortSetBeforeFinal && outcome == "PASS" then ["aborted-run-passed"] else []) ++
      -- an abort call that returned while plug tearDown was still going on is an abort of a running test
      (match firstRet with
       | some p => if status == "returned" && !kiOutside && outcome != "ABORTED" &&
                      ((stream.drop (p + 1)).any (·.startsWith "pt:")) then
                     ["abort-returned-before-plug-teardown-ended-but-outcome-" ++ outcome] else []
       | none => []) ++
      (if sigBeforeWait then ["sigint-before-execute-entered-its-wait:KeyboardInterrupt-escapes-without-finalization"]
       else if sigDuringOutput then ["sigint-during-output-stage:KeyboardInterrupt-skips-output-callbacks"]
       else if status == "returned" && cbs.length != 1 then ["callback-count-" ++ toString cbs.length] else []) ++
      (match forcedRet with
       | some p =>
         (if (afterPos p).any isBs then ["phase-started-after-forced-abort-returned:" ++ ((afterPos p).find? isBs).getD ""] else []) ++
         ((afterPos p).filter (fun t => isBe t && field t 2 == "ok" && (beforePos p).any (fun u => isBs u && field u 1 == field t 1) &&
             !(beforePos p).any (fun u => isBe u && field u 1 == field t 1 && true) )).map
           (fun t => "forced-abort-did-not-cancel-the-running-phase:" ++ field t 1)
       | none => []) ++
      (match overlap ev with | some id => ["two-bodies-at-once:" ++ id] | none => []) ++
      -- a thread killed by an abort before its body began must never run the body
      -- a phase thread that abort() found published (it is then killed) and whose body had not begun yet must not
      -- run its body to normal completion
      (let seenPos := (List.range stream.length).filter (fun i => stream.getD i "" == "aCR")
       seenPos.filterMap (fun p =>
         let pre := stream.take p
         let lastStart := (List.range pre.length).reverse.find? (fun i => pre.getD i "" == "eSt")
         match lastStart with
         | some st =>
           let cleared := (pre.drop (st + 1)).contains "eCl"
           let bodyBegan := ((pre.drop (st + 1)).filter isBs).length > 0
           let nextBs := ((stream.drop (p + 1)).takeWhile (· != "eSt")).find? isBs
           match nextBs with
           | some b =>
             let endedOk := (stream.drop (p + 1)).contains ("be:" ++ field b 1 ++ ":ok")
             if !cleared && !bodyBegan && endedOk && field b 2 != "t" then some ("thread-found-by-abort-ran-its-whole-body:" ++ b) else none
           | none => none
         | none => none)) ++
      (let killPos := (List.range stream.length).filter (fun i => stream.getD i "" == "aK")
       killPos.filterMap (fun p =>
         let pre := stream.take p
         let lastStart := (List.range pre.length).reverse.find? (fun i => pre.getD i "" == "eSt")
         match lastStart with
         | some st =>
           let bodyBegan := ((pre.drop (st + 1)).filter isBs).length > 0
           let nextStart := ((stream.drop (p + 1)).takeWhile (· != "eSt")).find? isBs
           if !bodyBegan then nextStart.map (fun b => "killed-thread-ran-its-body:" ++ b) else none
         | none => none)) ++
      (match cbs.head? with
       | some c => if (after c ev).any isBs then ["body-started-after-finalization"] else []
       | none => []) ++
      (if kiOutside then facts.filter (· != "no-record-handed-to-callbacks") else facts)
    -- model
    match replayToks {} 0 0 0 sync with
    | .error (k, t) =>
      reply false fails.isEmpty (",".intercalate (fails ++ ["model-rejects-action-" ++ toString k ++ ":" ++ t ++ ":after:" ++ " ".intercalate ((sync.take k).drop (k - 6))]))
    | .ok s =>
      let mfails : List String :=
        (if s.lateStart then ["model:lateStart"] else []) ++ (if s.lateTdStart then ["model:lateTdStart"] else []) ++
        (if s.overlap then ["model:overlap"] else []) ++ (if s.startAfterFinal then ["model:startAfterFinal"] else []) ++
        (if s.tdRefused then ["model:tdRefused"] else []) ++
        (if status == "returned" && s.finalised && !kiOutside && (s.outcomeAborted != (outcome == "ABORTED")) then ["model:outcome-aborted-differs"] else [])
      let agree := mfails.isEmpty
      reply agree fails.isEmpty (if fails.isEmpty && agree then "ok" else ",".intercalate (fails ++ mfails))
  | _ => reply false false "parse-error"

end OpenHTF.Driver.C04
