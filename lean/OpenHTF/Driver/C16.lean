import OpenHTF.Model.Fastboot
import OpenHTF.Driver.Util
/- C16 driver.
   `C16 S <chunk> <cmdhex> <arghex|-> <n> <resp>... # <real tokens>`   simple command
   `C16 D <chunk> <imghex|-> <n> <resp>... # <real tokens>`            download
   resp = `I:<hex>` | `O:..` | `D:..` | `F:..` | `X:..`
   real tokens: `P<hex>`* `C<h>:<hex>`* `R<result>` `G<n>`*            -/
namespace OpenHTF.Driver.C16
open OpenHTF.Driver OpenHTF.Fastboot

def resp : P Resp
  | [] => none
  | t :: ts =>
    match t.splitOn ":" with
    | [h, x] =>
      let hdr? : Option Hdr := match h with
        | "I" => some .info | "O" => some .okay | "D" => some .data | "F" => some .fail | "X" => some .other | _ => none
      match hdr?, unhex x with
      | some hdr, some l => some (⟨hdr, l⟩, ts)
      | _, _ => none
    | _ => none

def showHdr : Hdr → String
  | .info => "I" | .okay => "O" | .data => "D" | .fail => "F" | .other => "X"

def showResult : Except Err (List Nat) → String
  | .ok t => "Rok:" ++ hex t
  | .error .stateMismatch => "Rmismatch"
  | .error (.remoteFailure t) => "Rfail:" ++ hex t
  | .error .invalidResponse => "Rinvalid"
  | .error .transfer => "Rtransfer"
  | .error .exhausted => "Rexhausted"
  | .error .badSize => "Rbadsize"

def showOut (o : Out) : List String :=
  o.packets.map (fun p => "P" ++ hex p) ++ o.cb.map (fun c => "C" ++ showHdr c.1 ++ ":" ++ hex c.2) ++
  [showResult o.result] ++ o.progress.map (fun n => "G" ++ toString n)

/-- Spec evaluated independently of the coded loops: declarative state machine + chunk cutting -/
def specSimple (chunk : Nat) (cmd : List Nat) (arg : Option (List Nat)) (rs : List Resp) : Out :=
  let x := Spec.accept .okay rs
  { packets := Spec.chunks chunk (cmdString cmd arg), cb := x.1, result := x.2 }

def prefixSums : Nat → List Nat → List Nat
  | _, [] => []
  | cur, n :: ns => (cur + n) :: prefixSums (cur + n) ns

def specDownload (chunk : Nat) (img : List Nat) (rs : List Resp) : Out :=
  let cmdPk := Spec.chunks chunk (cmdString downloadWord (some (hex8 img.length)))
  let x := Spec.accept .data rs
  match x.2 with
  | .error e => { packets := cmdPk, cb := x.1, result := .error e }
  | .ok t =>
    if unhex8 t = some img.length then
      -- responses consumed so far: the INFO prefix and the DATA packet
      let rest := (rs.dropWhile (·.hdr == .info)).drop 1
      let y := Spec.accept .okay rest
      let cs := Spec.chunks chunk img
      { packets := cmdPk ++ cs, cb := x.1 ++ y.1, result := y.2, progress := prefixSums 0 (cs.map List.length) }
    else { packets := cmdPk, cb := x.1, result := .error (if (unhex8 t).isNone then .badSize else .transfer) }

/-- which conjuncts of the property fail on the real observation, given the reference `spec` -/
def failures (real : Toks) (spec : Out) (chunk : Nat) : List String :=
  let rp := real.filter (·.startsWith "P")
  let rc := real.filter (·.startsWith "C")
  let rr := real.filter (·.startsWith "R")
  let rg := real.filter (·.startsWith "G")
  (if rp == spec.packets.map (fun p => "P" ++ hex p) then [] else ["packets"]) ++
  (if rp.all (fun p => (p.length - 1) / 2 ≤ chunk) then [] else ["chunk-too-large"]) ++
  (if rc == ["C?"] || rc == spec.cb.map (fun c => "C" ++ showHdr c.1 ++ ":" ++ hex c.2) then [] else ["callback-log"]) ++
  (if rr == [showResult spec.result] || (rr == ["Rok:?"] && (showResult spec.result).startsWith "Rok:") then [] else ["result"]) ++
  (if rg == ["G?"] || rg == spec.progress.map (fun n => "G" ++ toString n) then [] else ["progress"])

/-- mask the parts of the model output that the real API did not let the harness observe -/
def mask (real : Toks) (model : Toks) : Toks :=
  let m := if real.contains "C?" then model.filter (fun t => !t.startsWith "C") ++ ["C?"] else model
  let m := if real.contains "G?" then m.filter (fun t => !t.startsWith "G") ++ ["G?"] else m
  if real.contains "Rok:?" then m.map (fun t => if t.startsWith "Rok:" then "Rok:?" else t) else m

def sameToks (a b : Toks) : Bool :=
  let key (t : String) := (t.take 1).toString
  ["P", "C", "R", "G"].all (fun k => a.filter (fun t => key t == k) == b.filter (fun t => key t == k))

def handle (ts : Toks) : String :=
  let (inp, real) := splitAt "#" ts
  match inp with
  | "S" :: rest =>
    match (pair nat (pair hexTok tok)) rest with
    | some ((chunk, cmd, argT), rest) =>
      let arg? : Option (Option (List Nat)) := if argT == "-" then some none else (unhex (argT.drop 1).toString).map some
      match arg?, listOf resp rest with
      | some arg, some (rs, []) =>
        let m := simpleCommand chunk cmd arg rs
        let f := failures real (specSimple chunk cmd arg rs) chunk
        reply (sameToks (mask real (showOut m)) real) f.isEmpty (if f.isEmpty then (if sameToks (mask real (showOut m)) real then "ok" else "model=" ++ " ".intercalate (showOut m)) else ",".intercalate f ++ " model=" ++ " ".intercalate (showOut m))
      | _, _ => reply false false "parse-error"
    | none => reply false false "parse-error"
  | "D" :: rest =>
    match (pair nat hexTok) rest with
    | some ((chunk, img), rest) =>
      match listOf resp rest with
      | some (rs, []) =>
        let m := download chunk img rs
        let f := failures real (specDownload chunk img rs) chunk
        reply (sameToks (mask real (showOut m)) real) f.isEmpty (if f.isEmpty then (if sameToks (mask real (showOut m)) real then "ok" else "model=" ++ " ".intercalate (showOut m)) else ",".intercalate f ++ " model=" ++ " ".intercalate ((showOut m).map (fun s => (s.take 40).toString)))
      | _ => reply false false "parse-error"
    | none => reply false false "parse-error"
  | _ => reply false false "parse-error"

end OpenHTF.Driver.C16
