import OpenHTF.Model.AtomicFile
import OpenHTF.Driver.Util
/- C17 driver: `C17 <F|A|As> <old hex|~> <n> <chunkhex|->.. <fault> <crash j|-> # <real ops…> D:<hex|~|->`   (As = atomic_write with filesync)
   fault := `none` | `ser:k` | `write:k` | `close` -/
namespace OpenHTF.Driver.C17
open OpenHTF.Driver OpenHTF.AtomicFile

def showOp : FsOp → String
  | .createTemp => "create" | .append d => "app:" ++ (if d.isEmpty then "-" else hex d) | .rename => "rename" | .removeTemp => "remove"
  | .flush => "flush" | .close => "close" | .closeFail => "closefail"
def showDest : Option Bytes → String
  | none => "D:~" | some [] => "D:-" | some d => "D:" ++ hex d

def faultOf (s : String) : Option Fault :=
  if s == "none" then some .none else if s == "close" then some .close
  else match s.splitOn ":" with
    | ["ser", k] => k.toNat?.map .serializer
    | ["write", k] => k.toNat?.map .write
    | _ => none

def handle (ts : Toks) : String :=
  let (inp, real) := splitAt "#" ts
  match inp with
  | prog :: oldT :: rest =>
    let old? : Option (Option Bytes) := if oldT == "~" then some none else (unhex (if oldT == "-" then "" else oldT)).map some
    match old?, listOf hexTok rest with
    | some old, some (chunks, [faultT, crashT]) =>
      match faultOf faultT with
      | none => reply false false "parse-error"
      | some fault =>
        let ops := if prog == "A" then atomicWrite chunks false fault else if prog == "As" then atomicWrite chunks true fault
                   else outputToFile chunks fault
        -- crash points are counted in operations other than explicit flushes (see `c17_atomic_with_any_flushes`)
        let ops := ops.filter (fun o => o != .flush)
        let ops := match crashT.toNat? with | some j => crashAfter j ops | none => ops
        let fs := applyAll { dest := old } ops
        let model := ops.map showOp ++ [showDest fs.dest]
        let realDest := (real.filter (·.startsWith "D:")).headD "?"
        let okOld := realDest == showDest old
        let okNew := realDest == showDest (some (full chunks))
        let clean := fault == .none && crashT == "-"
        let fails : List String :=
          (if okOld || okNew then [] else ["destination-truncated-or-partial"]) ++
          (if clean && !okNew then ["success-but-destination-not-the-serialization"] else []) ++
          (if real.contains "NAME:0" then ["file-name-not-the-formatted-pattern"] else [])
        -- explicit flushes are not compared: `c17_atomic_with_any_flushes` covers every placement of them
        let noFlush (l : List String) := l.filter (fun t => t != "flush")
        let agree := noFlush model == noFlush (real.filter (fun t => !t.startsWith "NAME:"))
        reply agree fails.isEmpty
          (if fails.isEmpty then (if agree then "ok" else "model=" ++ " ".intercalate model) else ",".intercalate fails ++ " model=" ++ " ".intercalate model)
    | _, _ => reply false false "parse-error"
  | _ => reply false false "parse-error"

end OpenHTF.Driver.C17
