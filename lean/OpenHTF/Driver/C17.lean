import OpenHTF.Model.AtomicFile
import OpenHTF.Driver.Util
/- C17 driver: `C17 <F|A|As> <old hex|~> <n> <chunkhex|->.. <fault> <crash j|-> # <real ops…> D:<hex|~|->`   (As = atomic_write with filesync)
   fault := `none` | `ser:k` | `write:k` | `close` -/
namespace OpenHTF.Driver.C17
open OpenHTF.Driver OpenHTF.AtomicFile

def showOp : FsOp → String
  | .createTemp => "create" | .append d => "app:" ++ (if d.isEmpty then "-" else hex d) | .rename => "rename" | .removeTemp => "remove"
  | .flush => "flush" | .close => "close" | .closeFail => "closefail"
def showDest : Option Bytes → String
  | none => "D:~" | some [] => "D:-" | some d => "D:" ++ hex d

def faultOf (s : String) : Option Fault :=
  if s == "none" then some .none else if s == "close" then some .close
  else match s.splitOn ":" with
    | ["ser", k] => k.toNat?.map .serializer
    | ["write", k] => k.toNat?.map .write
    | _ => none

/-- interleave the operation lists of the two calls as the schedule says; what is left over follows -/
def weave : List Bool → List FsOp → List FsOp → List (Bool × FsOp)
  | _, [], b => b.map (true, ·)
  | _, a, [] => a.map (false, ·)
  | [], a, b => a.map (false, ·) ++ b.map (true, ·)
  | false :: sch, x :: a, b => (false, x) :: weave sch a b
  | true :: sch, a, y :: b => (true, y) :: weave sch a b

/- `C17 P <n0> chunk.. <n1> chunk.. <m> sched.. # D0:<hex|~|-> D1:<hex|~|->`: one callback object, two records at once -/
def handleP (ts : Toks) : String :=
  let (inp, real) := splitAt "#" ts
  match listOf hexTok inp with
  | some (c0, rest) =>
    match listOf hexTok rest with
    | some (c1, rest2) =>
      match listOf nat rest2 with
      | some (sch, []) =>
        let ops := weave (sch.map (· != 0)) (outputToFile c0 .none) (outputToFile c1 .none)
        let r := applyAll2 ({ dest := none }, { dest := none }) ops
        let tag (i : String) (d : Option Bytes) : String := "D" ++ i ++ ((showDest d).drop 1)
        let model := [tag "0" r.1.dest, tag "1" r.2.dest]
        let want := [tag "0" (some (full c0)), tag "1" (some (full c1))]
        let holds := real == want
        reply (model == real) holds (if holds then "ok" else "simultaneous-calls-of-one-callback-disturb-each-other model=" ++ " ".intercalate model)
      | _ => reply false false "parse-error"
    | none => reply false false "parse-error"
  | none => reply false false "parse-error"

def handle (ts : Toks) : String :=
  let (inp, real) := splitAt "#" ts
  match inp with
  | "P" :: rest => handleP (rest ++ ["#"] ++ real)
  | prog :: oldT :: rest =>
    let old? : Option (Option Bytes) := if oldT == "~" then some none else (unhex (if oldT == "-" then "" else oldT)).map some
    match old?, listOf hexTok rest with
    | some old, some (chunks, [faultT, crashT]) =>
      match faultOf faultT with
      | none => reply false false "parse-error"
      | some fault =>
        let ops := if prog == "A" then atomicWrite chunks false fault else if prog == "As" then atomicWrite chunks true fault
                   else outputToFile chunks fault
        -- crash points are counted in operations other than explicit flushes (see `c17_atomic_with_any_flushes`)
        let ops := ops.filter (fun o => o != .flush)
        let ops := match crashT.toNat? with | some j => crashAfter j ops | none => ops
        let fs := applyAll { dest := old } ops
        let model := ops.map showOp ++ [showDest fs.dest]
        let realDest := (real.filter (·.startsWith "D:")).headD "?"
        let okOld := realDest == showDest old
        let okNew := realDest == showDest (some (full chunks))
        let clean := fault == .none && crashT == "-"
        let fails : List String :=
          (if okOld || okNew then [] else ["destination-truncated-or-partial"]) ++
          (if clean && !okNew then ["success-but-destination-not-the-serialization"] else []) ++
          (if real.contains "NAME:0" then ["file-name-not-the-formatted-pattern"] else [])
        -- explicit flushes are not compared: `c17_atomic_with_any_flushes` covers every placement of them
        let noFlush (l : List String) := l.filter (fun t => t != "flush")
        let agree := noFlush model == noFlush (real.filter (fun t => !t.startsWith "NAME:"))
        reply agree fails.isEmpty
          (if fails.isEmpty then (if agree then "ok" else "model=" ++ " ".intercalate model) else ",".intercalate fails ++ " model=" ++ " ".intercalate model)
    | _, _ => reply false false "parse-error"
  | _ => reply false false "parse-error"

end OpenHTF.Driver.C17
