import OpenHTF.Model.AdbConn
import OpenHTF.Driver.Util
/- C15 driver.
   `C15 H <nkeys> <exp|-> <n> reply.. # sent.. R:<result>`   (exp: the handshake time-out expires while the exp-th message is read)     reply := `C:<maxdata>:<ok>` | `T:<tok>` | `A` | `N`
   `C15 I <limit> <last> <n> live.. # <id|unavailable>`
   `C15 S <limit> <last> <nops> op.. <ndev> dmsg.. # res.. | sent..`   op := `O` | `X:<l>` | `R:<l>` ; dmsg := `K:r:l` | `W:r:l:d` | `Z:r:l` | `I` -/
namespace OpenHTF.Driver.C15
open OpenHTF.Driver OpenHTF.AdbConn

def reply_ : String → Option Reply
  | "A" => some .authOther | "N" => some .noise
  | t => match t.splitOn ":" with
    | ["C", m, ok] => m.toNat?.map (fun m => .cnxn m (ok == "1"))
    | ["T", k] => k.toNat?.map .authToken
    | _ => none

def showSent : Sent → String
  | .cnxn => "cnxn" | .signature k t => "sig:" ++ toString k ++ ":" ++ toString t | .publicKey k => "pub:" ++ toString k
def showConnResult : ConnResult → String
  | .connected m => "R:conn:" ++ toString m | .authError => "R:auth" | .protocolError => "R:proto" | .timeoutError => "R:timeout"

def dmsg : String → Option DMsg
  | "I" => some .illegal
  | t => match t.splitOn ":" with
    | ["K", r, l] => match r.toNat?, l.toNat? with | some r, some l => some (.okay r l) | _, _ => none
    | ["Z", r, l] => match r.toNat?, l.toNat? with | some r, some l => some (.clse r l) | _, _ => none
    | ["W", r, l, d] => match r.toNat?, l.toNat?, d.toNat? with | some r, some l, some d => some (.wrte r l d) | _, _, _ => none
    | _ => none

def showH : HMsg → String
  | .open_ l => "OPEN:" ++ toString l | .okay l r => "OKAY:" ++ toString l ++ ":" ++ toString r
  | .clse l r => "CLSE:" ++ toString l ++ ":" ++ toString r
def showErr : Err → String | .protocol => "proto" | .closed => "closed" | .timeout => "timeout" | .unavailable => "unavailable"

def pTok {α} (f : String → Option α) : P α
  | [] => none
  | t :: ts => (f t).map (·, ts)

def handshakeFailures (nkeys : Nat) (rs : List Reply) (real : Toks) : List String :=
  let sent := real.filter (fun t => !t.startsWith "R:")
  let res := (real.filter (·.startsWith "R:")).headD ""
  let sigs := sent.filter (·.startsWith "sig:")
  let pubs := sent.filter (·.startsWith "pub:")
  (if res.startsWith "R:conn:" then
     (if rs.any (fun r => match r with | .cnxn m true => res == "R:conn:" ++ toString m | _ => false) then [] else ["connection-without-matching-cnxn"])
   else if res == "R:auth" || res == "R:proto" || res == "R:timeout" then [] else ["unexpected-result"]) ++
  (if sent.head? == some "cnxn" then [] else ["no-cnxn-request"]) ++
  (if sigs.zipIdx.all (fun (s, i) => match s.splitOn ":" with
      | [_, k, t] => k == toString i && rs.any (fun r => match r with | .authToken x => toString x == t | _ => false)
      | _ => false) then [] else ["signed-non-token-or-keys-out-of-order"]) ++
  (if sigs.length ≤ nkeys then [] else ["more-signatures-than-keys"]) ++
  (if pubs.isEmpty || (pubs == ["pub:0"] && sigs.length == nkeys && sent.getLast? == some "pub:0") then [] else ["public-key-offer"])

def handle (ts : Toks) : String :=
  let (inp, real) := splitAt "#" ts
  match inp with
  | "H" :: nk :: expT :: rest =>
    match nk.toNat?, listOf (pTok reply_) rest with
    | some nkeys, some (rs, []) =>
      let out := connectE nkeys expT.toNat? rs
      let model := out.1.map showSent ++ [showConnResult out.2]
      let fails := handshakeFailures nkeys rs real
      reply (model == real) fails.isEmpty (if fails.isEmpty then (if model == real then "ok" else "model=" ++ " ".intercalate model) else ",".intercalate fails ++ " model=" ++ " ".intercalate model)
    | _, _ => reply false false "parse-error"
  | "I" :: lim :: last :: rest =>
    match lim.toNat?, last.toNat?, listOf nat rest with
    | some limit, some last, some (live, []) =>
      let m := match allocId limit last live with | some i => toString i | none => "unavailable"
      let ok := match (real.headD "").toNat? with
        | some i => !live.contains i && 1 ≤ i && i < limit
        | none => real == ["unavailable"]
      reply (real == [m]) ok (if ok then (if real == [m] then "ok" else "model=" ++ m) else "id-in-use-or-out-of-range model=" ++ m)
    | _, _, _ => reply false false "parse-error"
  | "S" :: lim :: last :: rest =>
    match lim.toNat?, last.toNat?, listOf tok rest with
    | some limit, some last, some (ops, rest2) =>
      match listOf (pTok dmsg) rest2 with
      | some (dev, []) =>
        -- the caller only has stream objects for opens that returned one
        let have_ (out : List String) (l : String) : Bool := out.contains ("s:" ++ l)
        let step (acc : Conn × List String) (o : String) : Conn × List String :=
          let c := acc.1
          if o == "O" then
            let r := openStream c
            (r.1, acc.2 ++ [match r.2 with | .stream l => "s:" ++ toString l | .noStream => "none" | .error e => "err:" ++ showErr e])
          else match o.splitOn ":" with
            | ["X", l] => if have_ acc.2 l then (closeStream c (l.toNat?.getD 0), acc.2 ++ ["ok"]) else (c, acc.2 ++ ["ok"])
            -- close() through the handle of an EARLIER stream whose id was released (closed by the device) and has since
            -- been given to another stream: that stream is closed already, nothing happens
            | ["XS", _] => (c, acc.2 ++ ["ok"])
            -- read() through such a handle: the parked CLSE is all it has, the stream reports closed; the connection
            -- and the id's new owner are untouched
            | ["RS", _] => (c, acc.2 ++ ["err:closed"])
            | ["R", l, n] =>
              if have_ acc.2 l then
                let r := readStream (l.toNat?.getD 0) (n.toNat?.getD 0) (c.dev.length + 24) c
                (r.1, acc.2 ++ [match r.2 with | .ok d => "d:" ++ ".".intercalate (d.map toString) | .error e => "err:" ++ showErr e])
              else (c, acc.2 ++ ["err:closed"])
            | _ => (c, acc.2 ++ ["?"])
        let fin := ops.foldl step ({ limit := limit, last := last, dev := dev }, [])
        let model := fin.2 ++ ["|"] ++ fin.1.sent.map showH
        -- conjuncts checked on the real observation alone
        let (rres, rsent) := splitAt "|" real
        let opened := rres.filterMap (fun t => if t.startsWith "s:" then (t.drop 2).toString.toNat? else none)
        let clses := rsent.filter (·.startsWith "CLSE:")
        let fails : List String :=
          (if opened.all (fun l => 1 ≤ l && l < limit) then [] else ["stream-id-out-of-range"]) ++
          (if clses.eraseDups.length == clses.length then [] else ["more-than-one-clse-for-a-stream"]) ++
          (if model == real then [] else ["lifecycle-differs-from-model"])
        reply (model == real) fails.isEmpty (if fails.isEmpty then "ok" else ",".intercalate fails ++ " model=" ++ " ".intercalate model)
      | _ => reply false false "parse-error"
    | _, _, _ => reply false false "parse-error"
  | _ => reply false false "parse-error"

end OpenHTF.Driver.C15
