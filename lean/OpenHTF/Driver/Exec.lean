import OpenHTF.Model.Exec
import OpenHTF.Driver.Util
/- Parser/printer for the executor line protocol (shared by C01 C02 C03 C05 C08 C09).

   test  := `<sof> <allowUnset> <hasStart 0|1> [phase] <n> node... <nd> diagrun...`
   node  := `P` phase | `Q n node...` | `G ns node.. nm node.. nt node..` | `U name n node...`
          | `B id on nres res... n node...` | `C id fs kind [on nres res...]`
   phase := `id limit|- fr rmf rot somf runif nbeh inv...`      runif := `-` | `n (t|f|x)...`
   inv   := `raw nmeas mo... ndiag diagrun...`     diagrun := `R n (rid f)...` | `X`            -/
namespace OpenHTF.Driver.ExecIO
open OpenHTF.Driver OpenHTF.Exec

def prOf : String → Option PR
  | "cont" => some .cont | "failcont" => some .failCont | "rep" => some .rep | "skip" => some .skip
  | "stop" => some .stop | "failsub" => some .failSub | _ => none

def rawOf (s : String) : Option Raw :=
  match s with
  | "invalid" => some .invalid | "exc" => some (.exc false) | "fexc" => some (.exc true) | "timeout" => some .timeout
  | _ => (prOf s).map .ret

def moOf : String → Option MO
  | "pass" => some .pass | "fail" => some .fail | "unset" => some .unset | "ppass" => some .partialPass
  | "pfail" => some .partialFail | "praise" => some .partialRaise | _ => none

def pTok {α} (f : String → Option α) : P α
  | [] => none
  | t :: ts => (f t).map (·, ts)

def diagRun : P DiagRun
  | "X" :: ts => some (.raises, ts)
  | "R" :: ts => match listOf (pair nat bool) ts with
    | some (rs, ts) => some (.results rs, ts) | none => none
  | _ => none

def inv : P Inv := fun ts =>
  match pTok rawOf ts with
  | none => none
  | some (raw, ts) => match listOf (pTok moOf) ts with
    | none => none
    | some (meas, ts) => match listOf diagRun ts with
      | none => none
      | some (ds, ts) => some ({ raw := raw, meas := meas, diags := ds }, ts)

def runIfTok : String → Option (Option Bool)
  | "t" => some (some true) | "f" => some (some false) | "x" => some none | _ => none

def phase : P Phase := fun ts =>
  match nat ts with
  | none => none
  | some (id, ts) => match optNat ts with
    | none => none
    | some (limit, ts) => match many 4 bool ts with
      | some ([fr, rmf, rot, somf], ts) =>
        let runIf? : Option (Option (List (Option Bool)) × Toks) := match ts with
          | "-" :: ts => some (none, ts)
          | ts => match listOf (pTok runIfTok) ts with
            | some (l, ts) => some (some l, ts) | none => none
        match runIf? with
        | none => none
        | some (ri, ts) => match listOf inv ts with
          | none => none
          | some (invs, ts) =>
            some ({ id := id,
                    opts := { repeatLimit := limit, forceRepeat := fr, repeatOnMeasFail := rmf, repeatOnTimeout := rot,
                              stopOnMeasFail := somf,
                              runIf := ri.map (fun l => fun k => l.getD k (some true)) },
                    beh := fun k => invs.getD k { raw := .ret .cont } }, ts)
      | _ => none

def condOn : String → Option CondOn
  | "all" => some .all | "any" => some .any | "notany" => some .notAny | "notall" => some .notAll | _ => none

def diagCond : P DiagCond := fun ts =>
  match pTok condOn ts with
  | none => none
  | some (on, ts) => match listOf nat ts with
    | none => none
    | some (rs, ts) => some (⟨on, rs⟩, ts)

partial def node : P Node := fun ts =>
  match ts with
  | "P" :: ts => match phase ts with | some (p, ts) => some (.phase p, ts) | none => none
  | "Q" :: ts => match listOf node ts with | some (ns, ts) => some (.seq ns, ts) | none => none
  | "G" :: ts => match listOf node ts with
    | none => none
    | some (s, ts) => match listOf node ts with
      | none => none
      | some (m, ts) => match listOf node ts with
        | none => none
        | some (t, ts) => some (.group s m t, ts)
  | "U" :: ts => match nat ts with
    | none => none
    | some (name, ts) => match listOf node ts with | some (ns, ts) => some (.subtest name ns, ts) | none => none
  | "B" :: ts => match nat ts with
    | none => none
    | some (id, ts) => match diagCond ts with
      | none => none
      | some (c, ts) => match listOf node ts with | some (ns, ts) => some (.branch id c ns, ts) | none => none
  | "C" :: ts => match pair nat bool ts with
    | none => none
    | some ((id, fs), ts) => match ts with
      | "last" :: ts => some (.checkpoint ⟨id, fs, .last⟩, ts)
      | "all" :: ts => some (.checkpoint ⟨id, fs, .allPrev⟩, ts)
      | "sub" :: ts => some (.checkpoint ⟨id, fs, .subtestPrev⟩, ts)
      | "diag" :: ts => match diagCond ts with
        | some (c, ts) => some (.checkpoint ⟨id, fs, .diag c⟩, ts) | none => none
      | _ => none
  | _ => none

def test : P (Cfg × Test) := fun ts =>
  match pair bool bool ts with
  | none => none
  | some ((sof, allow), ts) =>
    let start? : Option (Option Phase × Toks) := match ts with
      | "0" :: ts => some (none, ts)
      | "1" :: ts => match phase ts with | some (p, ts) => some (some p, ts) | none => none
      | _ => none
    match start? with
    | none => none
    | some (start, ts) => match listOf node ts with
      | none => none
      | some (ns, ts) => match listOf diagRun ts with
        | none => none
        | some (ds, ts) =>
          some (({ stopOnFirstFailure := sof, allowUnset := allow }, { testStart := start, nodes := ns, testDiags := ds }), ts)

def showPR : PR → String
  | .cont => "cont" | .failCont => "failcont" | .rep => "rep" | .skip => "skip" | .stop => "stop" | .failSub => "failsub"
def showRes : Res → String
  | .pr r => showPR r | .exc true => "fexc" | .exc false => "exc" | .timeout => "timeout"
def showPO : PO → String | .pass => "PASS" | .fail => "FAIL" | .skip => "SKIP" | .error => "ERROR"
def showSO : SO → String | .pass => "PASS" | .fail => "FAIL" | .stop => "STOP"
def showTO : TO → String
  | .pass => "PASS" | .fail => "FAIL" | .error => "ERROR" | .timeout => "TIMEOUT" | .aborted => "ABORTED"
def showSub : Option Nat → String | none => "-" | some n => toString n
def dots (l : List Nat) : String := if l.isEmpty then "-" else ".".intercalate (l.map toString)
def showEv : Ev → String
  | .body id k => "b" ++ toString id ++ "." ++ toString k
  | .runIf id k => "r" ++ toString id ++ "." ++ toString k
  | .diag id k j => "d" ++ toString id ++ "." ++ toString k ++ "." ++ toString j
  | .plugCtor c => "P+" ++ toString c
  | .plugCtorFailed c => "P!" ++ toString c
  | .plugTearDown c => "P-" ++ toString c
  | .testDiag j => "T" ++ toString j
  | .callback j => "CB" ++ toString j

def showPhaseRec (r : PhaseRec) : String :=
  "p" ++ toString r.id ++ ":" ++ showPO r.outcome ++ ":" ++ showRes r.result ++ ":" ++ showSub r.subtest ++ ":" ++
  dots r.diagResults ++ ":" ++ dots r.failDiagResults

/-- canonical observation of a finished run: same token layout as the harness produces -/
def showRun (st : St) (o : TO) : List String :=
  ["O:" ++ showTO o] ++ st.phases.map showPhaseRec ++
  st.subtests.map (fun s => "u" ++ toString s.1 ++ ":" ++ showSO s.2) ++
  st.branches.map (fun b => "B" ++ toString b.1 ++ ":" ++ b01 b.2) ++
  st.checkpoints.map (fun c => "c" ++ toString c.1 ++ ":" ++ showSub c.2.1 ++ ":" ++ showRes c.2.2) ++
  st.diagnoses.map (fun d => "D" ++ toString d.1 ++ ":" ++ b01 d.2) ++
  st.events.map (fun e => "e" ++ showEv e)

end OpenHTF.Driver.ExecIO

namespace OpenHTF.Driver.ExecIO
open OpenHTF.Driver OpenHTF.Exec

/-- first token where the two observations differ -/
def firstDiff (a b : Toks) : String :=
  match ((a.zip b).filter (fun (x, y) => x != y)).head? with
  | some (x, y) => "model:" ++ x ++ "/real:" ++ y
  | none => "length:" ++ toString a.length ++ "/" ++ toString b.length

/-- `EX <test> # <real obs>`: plain model/implementation comparison -/
def handleEX (ts : Toks) : String :=
  let (inp, real) := splitAt "#" ts
  match test inp with
  | some ((cfg, t), []) =>
    let st := runTest cfg t
    let model := showRun st (finalize st)
    let agree := model == real
    reply agree agree (if agree then "ok" else "diff " ++ firstDiff model real)
  | _ => reply false false "parse-error"
end OpenHTF.Driver.ExecIO
