import OpenHTF.Model.Conf
import OpenHTF.Driver.Util
/- C20 driver: `C20 <n> <ops...> # <real trace tokens>`; reply `<agree> <holds> <msg>`. -/
namespace OpenHTF.Driver.C20
open OpenHTF.Driver OpenHTF.Conf

def nKeys : Nat := 5
/-- key universe of the harness: 0..2 ordinary, 3 = a method name (`reset`), 4 = invalid (`Upper`) -/
def ki : KeyInfo := { valid := fun k => k != 4, method := fun k => k == 3 }

def kv : P (Key × Val) := pair nat nat

partial def op : P Op := fun ts =>
  match ts with
  | "D" :: ts => match pair nat optNat ts with
    | some ((k, d), ts) => some (.declare k d, ts) | none => none
  | "L" :: ts => match pair bool bool ts with
    | some ((o, a), ts) => match listOf kv ts with
      | some (kvs, ts) => some (.load kvs o a, ts) | none => none
    | none => none
  | "F" :: ts => match listOf kv ts with
    | some (kvs, ts) => some (.flagValues kvs, ts) | none => none
  | "R" :: ts => some (.reset, ts)
  | "CF" :: ts => match listOf kv ts with
    | some (kvs, ts) => some (.configFile kvs, ts) | none => none
  | "A" :: ts => match pair nat nat ts with
    | some ((k, v), ts) => some (.setattr k v, ts) | none => none
  | "S" :: ts => match bool ts with
    | some (r, ts) => match listOf kv ts with
      | some (cfg, ts) => match listOf op ts with
        | some (inner, ts) => some (.saveRestore cfg inner r, ts) | none => none
      | none => none
    | none => none
  | _ => none

def showRes : Res → String
  | .val v => "v" ++ toString v | .undeclared => "U" | .unset => "N" | .method => "M" | .attributeError => "A"
def showOpRes : OpRes → String
  | .ok => "ok" | .alreadyDeclared => "dup" | .invalidKey => "invalid" | .attributeError => "attr" | .raised => "raised"

def showKey (s : St) (k : Key) : String :=
  b01 (contains s k) ++ ":" ++ showRes (getitem s k) ++ ":" ++ showRes (getattr ki s k) ++ ":" ++
  (match holder s k with | none => "-" | some r => showRes r) ++ ":" ++
  (match asdict s k with | none => "-" | some v => "v" ++ toString v)

def showEntry (e : OpRes × St) : String :=
  showOpRes e.1 ++ "/" ++ ",".intercalate ((List.range nKeys).map (showKey e.2))

/-- the property evaluated on a REAL observation of one key, against the reference dictionary `s`;
    returns the names of the conjuncts that fail -/
def failsKey (s : St) (k : Key) (obs : String) : List String :=
  match obs.splitOn ":" with
  | [c, g, a, h, d] =>
    match s.decl k with
    | some dflt =>
      let exp := Spec.lookup (s.flags k) (s.loaded k) dflt
      let e := showRes exp
      let isV := match exp with | .val _ => true | _ => false
      (if g == e then [] else ["getitem-precedence"]) ++
      (if c == b01 isV then [] else ["contains-view"]) ++
      (if a == e then [] else [if a == "M" && ki.method k then "attr-view-shadowed-by-method-name" else "attr-view"]) ++
      (if h == e then [] else ["holder-view"]) ++
      (if d == (if isV then e else "-") then [] else ["asdict-view"])
    | none =>
      (if g == "U" && c == "0" && h == "-" && !(a.startsWith "v") then [] else ["undeclared-key-readable"])
  | _ => ["malformed-observation"]

def failsEntry (e : OpRes × St) (real : String) : List String :=
  match real.splitOn "/" with
  | [r, st] =>
    let ks := st.splitOn ","
    (if ks.length == nKeys then [] else ["malformed-observation"]) ++
    (List.range nKeys).flatMap (fun k => failsKey e.2 k (ks.getD k "")) ++
    (match e.1 with
     | .alreadyDeclared => if r == "dup" then [] else ["redeclare-not-refused"]
     | .attributeError => if r == "attr" then [] else ["setattr-not-refused"]
     | .invalidKey => if r == "invalid" then [] else ["invalid-key-accepted"]
     | .raised => if r == "raised" then [] else ["wrapped-exception-lost"]
     | .ok => if r == "ok" then [] else ["operation-failed"])
  | _ => ["malformed-observation"]

/-- `C20 T <fact>*`: the configuration snapshot stored in the metadata of real test runs, compared by the harness with
    the other views at the moment of each execute() (X:… = a violation) -/
def handleT (facts : Toks) : String :=
  let bad := (facts.filter (·.startsWith "X:")).map (fun e => (e.drop 2).toString)
  reply true bad.isEmpty (if bad.isEmpty then "ok" else ",".intercalate bad)

def handle (ts : Toks) : String :=
  if ts.head? == some "T" then handleT (ts.drop 1) else
  let (opsT, realT) := splitAt "#" ts
  match listOf op opsT with
  | some (ops, []) =>
    let tr := (run ki {} ops).2
    let model := tr.map showEntry
    let agree := model == realT
    let bad := ((tr.zip realT).zipIdx.map (fun ((e, r), i) => (failsEntry e r, i, r, e))).filter (fun x => !x.1.isEmpty)
    let holds := tr.length == realT.length && bad.isEmpty
    let msg := match bad.head? with
      | some (fs, i, r, e) => ",".intercalate fs.eraseDups ++ " step=" ++ toString i ++ " real=" ++ r ++ " reference=" ++ showEntry e
      | none => if tr.length != realT.length then "trace-length"
                else if agree then "ok" else "model=" ++ " ".intercalate model
    reply agree holds msg
  | _ => reply false false "parse-error"

end OpenHTF.Driver.C20
