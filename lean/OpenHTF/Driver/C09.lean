import OpenHTF.Model.TestObject
import OpenHTF.Model.TestObjectConc
import OpenHTF.Driver.C08
/- C09 driver: `C09 <test> PL … # run1-tokens | run2-tokens | …` (the same Test object executed several times).
   Per run, beyond the C08 tokens: `F:<facts>` record finality facts, `CBSAME:<b>` every callback got the
   same record object, `H:<delta>` change in the number of handlers on the `openhtf` logger, `S:<b>` Test.state
   is None afterwards, `TI:<b>` still in TEST_INSTANCES, `V:<exc|none|->` result of an overlapping execute(). -/
namespace OpenHTF.Driver.C09
open OpenHTF.Driver OpenHTF.Exec OpenHTF.Plugs OpenHTF.TestObject OpenHTF.Driver.ExecIO

def splitRuns (ts : Toks) : List Toks :=
  let rec go (acc cur : List String) : List String → List Toks
    | [] => if cur.isEmpty then [] else [cur.reverse]
    | "|" :: rest => cur.reverse :: go acc [] rest
    | t :: rest => go acc (t :: cur) rest
  go [] [] ts

def parseFacts (t : String) : Option RecFacts :=
  match (t.drop 2).toString.splitOn ";" with
  | [] => none
  | hd :: ps =>
    match hd.splitOn "," with
    | [o, s, e, d, n, c, r] =>
      let phases := ps.filterMap (fun p =>
        match p.splitOn "," with
        | [po, pr, popt, pst, pe] => some (po == "1", pr == "1", popt == "1", pst.toNat?.getD 0, pe.toNat?)
        | _ => none)
      some { hasOutcome := o == "1", start := s.toNat?.getD 0, end_ := e.toNat?, dutIdSet := d == "1", hasName := n == "1",
             hasConfig := c == "1", noRunningPhase := r == "1", phases := phases }
    | _ => none

def runFailures (r : Run) (real : Toks) : List String :=
  let evs := real.filter (·.startsWith "e")
  let n := r.callbacks.length
  let expectedCb := (List.range n).map (fun j => "eCB" ++ toString j)
  let cbs := evs.filter (·.startsWith "eCB")
  (if cbs == expectedCb then [] else ["callbacks-not-once-in-order"]) ++
  (if (evs.drop (evs.length - n)) == expectedCb then [] else ["callback-before-end-of-run"]) ++
  (if real.contains "CBSAME:1" || n == 0 then [] else ["callbacks-got-different-records"]) ++
  (if real.contains "X:ret:1" == real.contains "O:PASS" then [] else ["return-value-not-iff-pass"]) ++
  (match (real.filter (·.startsWith "F:")).head? with
   | none => ["no-record"]
   | some f => match parseFacts f with
     | none => ["malformed-facts"]
     | some facts => if final facts then [] else ["record-not-final"]) ++
  (if real.contains "H:0" then [] else ["record-log-handler-leaked"]) ++
  (if real.contains "S:1" then [] else ["test-still-holds-executor"]) ++
  (if real.contains "TI:0" then [] else ["still-registered-for-sigint"]) ++
  (if real.contains "V:-" || real.contains "V:InvalidTestStateError" then [] else ["overlapping-execute-not-refused"])

/-! `C09 RACE <nthreads> # <tok>*`: several threads called execute() on one Test under the scheduler. Tokens in the order
   the effects happened: `a<t>` took Test._lock, `c<t>` stored its executor in Test._executor, `r<t>` released the lock,
   `k<t>` cleared Test._executor, `x<t>` execute() raised InvalidTestStateError, `R:<facts>` end-of-run facts. -/
namespace Race
open OpenHTF.TestObjectConc

structure RS where
  s : S := {}
  ok : Bool := true        -- every step was enabled in the model and check outcomes matched
  why : String := ""

def fire (r : RS) (a : Act) (what : String) : RS :=
  if !r.ok then r else
  match step r.s a with
  | some s' => { r with s := s' }
  | none => { r with ok := false, why := "model-cannot-" ++ what }

def feed (r : RS) (t : String) : RS :=
  let th := (t.drop 1).toString.toNat?.getD 0
  if t.startsWith "a" then fire (fire r (.enter th) "enter") (.acquire th) ("acquire:" ++ t)
  else if t.startsWith "c" then
    -- the real thread created an executor: its check must have found the slot empty
    let r1 := fire r (.check th) "check"
    if r1.ok && r1.s.pc th != .creating then { r1 with ok := false, why := "real-created-an-executor-where-the-model-refuses:" ++ t }
    else fire r1 (.create th) ("create:" ++ t)
  else if t.startsWith "r" then
    if r.s.pc th == .inLock then
      -- released without creating: the real thread was refused
      let r1 := fire r (.check th) "check"
      if r1.ok && r1.s.pc th != .idle then { r1 with ok := false, why := "real-refused-where-the-model-starts:" ++ t } else r1
    else fire r (.release th) ("release:" ++ t)
  else if t.startsWith "k" then fire r (.finish th) ("finish:" ++ t)
  else r

/-- the property on the REAL token stream: no executor stored while another thread's is still in place -/
def overlapFailures (ts : Toks) : List String :=
  let rec go (cur : Option String) : List String → List String
    | [] => []
    | t :: rest =>
      if t.startsWith "c" then
        (match cur with
         | some o => if o != (t.drop 1).toString then ["two-executions-of-one-test-overlap"] else []
         | none => []) ++ go (some (t.drop 1).toString) rest
      else if t.startsWith "k" then go none rest
      else go cur rest
  go none ts

def handle (ts : Toks) : String :=
  let (_, real) := splitAt "#" ts
  let evs := real.filter (fun t => !(t.startsWith "R:") && !(t.startsWith "x"))
  let r := evs.foldl feed {}
  let nref := (real.filter (·.startsWith "x")).length
  let facts := real.filter (·.startsWith "R:")
  let fails := (overlapFailures evs ++
    (if facts.contains "R:executor-left" then ["test-still-holds-executor"] else []) ++
    (if facts.contains "R:registered-left" then ["still-registered-for-sigint"] else []) ++
    (if facts.contains "R:handlers-left" then ["record-log-handler-leaked"] else []) ++
    (if facts.contains "R:deadlock" then ["deadlock"] else []) ++
    (if facts.contains "R:record-count-mismatch" then ["records-do-not-match-successful-executes"] else []) ++
    (if facts.contains "R:raised-other" then ["execute-raised-something-else"] else [])).eraseDups
  let agree := r.ok && r.s.refused == nref && r.s.exec.isNone
  reply agree fails.isEmpty
    (if fails.isEmpty then (if agree then "ok" else "diff " ++ (if r.ok then "refused/clear-count" else r.why))
     else ",".intercalate fails ++ (if agree then "" else " " ++ r.why))
end Race

/-- `C09 ABORT # O:<outcome> F:<facts> NCB:<calls>:<registered> CBSAME:b NREC:n X:ret:b H:d S:b TI:b [R:…]`:
    execute() returned after an operator abort at some scheduling step; the same end-of-run contract applies -/
def handleAbort (ts : Toks) : String :=
  let (_, real) := splitAt "#" ts
  -- the other thread's execute() started only after the first run had ended: two runs one after the other, nothing to judge
  if real == ["R:second-execute-was-sequential"] then reply true true "ok" else
  -- a Test that cannot start (a plug placeholder never substituted): execute() raised, and left nothing behind
  if real == ["R:start-failure-left-nothing-behind"] then reply true true "ok" else
  if real.contains "R:sigint-outside-the-wait" then reply true false "sigint-outside-the-wait" else
  let fails : List String :=
    (if real.any (·.startsWith "R:") then (real.filter (·.startsWith "R:")).map (fun t => (t.drop 2).toString) else []) ++
    (match (real.filter (·.startsWith "F:")).head? with
     | none => ["no-record"]
     | some f => match parseFacts f with
       | none => ["malformed-facts"]
       | some facts => if final facts then [] else ["record-not-final"]) ++
    (match (real.filter (·.startsWith "NCB:")).head? with
     | some t => match t.splitOn ":" with
       | [_, a, b] => if a == b then [] else ["callbacks-not-once-each"]
       | _ => ["malformed"]
     | none => ["malformed"]) ++
    (if real.contains "CBSAME:1" then [] else ["callbacks-got-different-records"]) ++
    (if real.contains "NREC:1" then [] else ["not-exactly-one-record"]) ++
    (if real.contains "X:ret:1" == real.contains "O:PASS" then [] else ["return-value-not-iff-pass"]) ++
    (if real.contains "H:0" then [] else ["record-log-handler-leaked"]) ++
    (if real.contains "S:1" then [] else ["test-still-holds-executor"]) ++
    (if real.contains "TI:0" then [] else ["still-registered-for-sigint"])
  reply true fails.isEmpty (if fails.isEmpty then "ok" else ",".intercalate fails)

def handle (ts : Toks) : String :=
  if ts.head? == some "RACE" then Race.handle ts else
  if ts.head? == some "ABORT" then handleAbort ts else
  let (inp, real) := splitAt "#" ts
  match C08.run inp with
  | some ((cfg, r), []) =>
    let res := execute cfg r
    let model := C08.showResult res
    let runs := splitRuns real
    let agree := !runs.isEmpty && runs.all (fun rt => model == rt.filter C08.isRecordOrEvent)
    -- the Test-object model: every run is begin (+ a refused overlapping begin) + finish
    let objOk := (OpenHTF.TestObject.run {} (runs.flatMap (fun rt =>
        if rt.contains "V:-" then [Op.begin, Op.finish] else [Op.begin, Op.begin, Op.finish]))).1 ==
      ({ completed := runs.length } : TS)
    let fails := ((runs.flatMap (runFailures r)) ++ (if objOk then [] else ["test-object-model"])).eraseDups
    reply agree fails.isEmpty
      (if fails.isEmpty then (if agree then "ok" else "diff " ++ firstDiff model ((runs.headD []).filter C08.isRecordOrEvent))
       else ",".intercalate fails ++ " " ++ firstDiff model ((runs.headD []).filter C08.isRecordOrEvent))
  | _ => reply false false "parse-error"

end OpenHTF.Driver.C09
