import OpenHTF.Gen.Constants
import OpenHTF.Model.Conf
